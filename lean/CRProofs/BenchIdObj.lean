/-
  CRProofs.BenchIdObj — ids and solutions as *objects with a history*: keyword construction with defaults (`Kw`),
  attribute re-assignment (`Op`, `runOps`), the planning-problem-solution setters (`POp`) and the Solution's dict.
  Connects them with the domain `Valid` / `norm` of CRProofs/BenchIdValid.lean.
-/
import CRProofs.BenchIdValid
set_option linter.unusedSimpArgs false
namespace CR.BenchId

/-! ### keyword construction -/

/-- the property's domain stated on the *given* keyword arguments (omitted ones take the signature's defaults) -/
structure KwValid (cs : List Str) (k : Kw) : Prop where
  version : ∀ v, k.version = some v → v ∈ supported
  country : ∀ c, k.country = some (some c) → c ∈ cs ∨ c = ZAM
  name_ne : ∀ s, k.mapName = some s → s ≠ []
  name_alnum : ∀ s, k.mapName = some s → ∀ ch ∈ s, ch.isAlphanum = true
  mapId : ∀ n, k.mapId = some n → 0 < n
  config : ∀ c, k.config = some (some c) → 0 < c
  beh : ∀ b, k.beh = some (some b) → b ∈ behaviours
  pred_beh : ∀ p, k.pred = some p → p ≠ .none → ∃ b, k.beh = some (some b)
  pred : ∀ p, k.pred = some p →
    match p with
    | .none => True
    | .one n => 0 < n
    | .many l => 2 ≤ l.length ∧ ∀ n ∈ l, 0 < n

theorem defaultVersion_supported : defaultVersion ∈ supported := by decide
theorem defaultName_ok : defaultName ≠ [] ∧ ∀ ch ∈ defaultName, ch.isAlphanum = true := by decide

/-- whatever subset of the eight arguments is given (in-domain), the filled-in argument tuple is in the domain -/
theorem kw_valid {cs : List Str} {k : Kw} (h : KwValid cs k) : Valid cs k.fill := by
  obtain ⟨coop, country, name, mapId, config, beh, pred, version⟩ := k
  obtain ⟨h1, h2, h3, h4, h5, h6, h7, h8, h9⟩ := h
  simp only at h1 h2 h3 h4 h5 h6 h7 h8 h9
  refine ⟨?_, ?_, ?_, ?_, ?_, ?_, ?_, ?_, ?_⟩
  · cases version with
    | none => exact defaultVersion_supported
    | some v => exact h1 v rfl
  · intro c hc
    cases country with
    | none => simp [Kw.fill] at hc; exact Or.inr hc.symm
    | some co =>
      simp only [Kw.fill, Option.getD_some] at hc
      exact h2 c (by rw [hc])
  · cases name with
    | none => exact defaultName_ok.1
    | some s => exact h3 s rfl
  · cases name with
    | none => exact defaultName_ok.2
    | some s => exact h4 s rfl
  · cases mapId with
    | none => simp [Kw.fill]
    | some n => exact h5 n rfl
  · intro c hc
    cases config with
    | none => simp [Kw.fill] at hc
    | some co =>
      simp only [Kw.fill, Option.getD_some] at hc
      exact h6 c (by rw [hc])
  · intro b hb
    cases beh with
    | none => simp [Kw.fill] at hb
    | some bo =>
      simp only [Kw.fill, Option.getD_some] at hb
      exact h7 b (by rw [hb])
  · intro hp
    cases pred with
    | none => simp [Kw.fill] at hp
    | some p =>
      simp only [Kw.fill, Option.getD_some] at hp
      obtain ⟨b, hb⟩ := h8 p rfl hp
      simp [Kw.fill, hb]
  · cases pred with
    | none => simp [Kw.fill]
    | some p => exact h9 p rfl

/-! ### ids as objects -/

/-- the current attribute values of `i` form a valid scenario id: read as constructor arguments they are in the
    domain, and the optional parts are complete the way the constructor leaves them (a behaviour comes with a
    configuration id and a prediction id) -/
structure IdOk (cs : List Str) (i : Id) : Prop where
  valid : Valid cs i.toRaw
  cfg : i.beh ≠ none → i.config ≠ none
  pred : i.beh ≠ none → i.pred ≠ .none

/-- on such an id the constructor's normalisation changes nothing -/
theorem norm_toRaw {cs : List Str} {i : Id} (h : IdOk cs i) : norm i.toRaw = i := by
  obtain ⟨coop, country, name, mapId, config, beh, pred, version⟩ := i
  have hc := h.cfg
  have hp := h.pred
  have hpb := h.valid.pred_beh
  simp only [Id.toRaw] at hc hp hpb
  cases beh with
  | none =>
    have : pred = .none := Decidable.byContradiction fun hne => hpb hne rfl
    subst this
    cases config <;> simp [norm, Id.toRaw]
  | some b =>
    have hc' := hc (by simp)
    have hp' := hp (by simp)
    cases config with
    | none => exact absurd rfl hc'
    | some k =>
      cases pred with
      | none => exact absurd rfl hp'
      | one n => simp [norm, Id.toRaw]
      | many l => simp [norm, Id.toRaw]

/-- every id built by the constructor from valid arguments is such an id -/
theorem idOk_norm {cs : List Str} {r : Raw} (hv : Valid cs r) : IdOk cs (norm r) := by
  obtain ⟨coop, country, name, mapId, config, beh, pred, version⟩ := r
  obtain ⟨h1, h2, h3, h4, h5, h6, h7, h8, h9⟩ := hv
  simp only at h1 h2 h3 h4 h5 h6 h7 h8 h9
  refine ⟨⟨h1, ?_, h3, h4, h5, ?_, h7, ?_, ?_⟩, ?_, ?_⟩
  · intro c hc
    cases country with
    | none => simp [norm, Id.toRaw] at hc; exact Or.inr hc.symm
    | some co =>
      simp [norm, Id.toRaw] at hc
      exact h2 c (by rw [hc])
  · intro c hc
    cases config with
    | none =>
      cases beh <;> cases pred <;> simp [norm, Id.toRaw] at hc <;> omega
    | some k =>
      simp [norm, Id.toRaw] at hc
      have := h6 k rfl
      omega
  · intro hp hb
    simp only [norm, Id.toRaw] at hp hb
    subst hb
    have : pred = .none := Decidable.byContradiction fun hne => h8 hne rfl
    subst this
    simp at hp
  · cases beh with
    | none => simpa [norm, Id.toRaw] using h9
    | some b =>
      cases pred with
      | none => simp [norm, Id.toRaw]
      | one n => simpa [norm, Id.toRaw] using h9
      | many l => simpa [norm, Id.toRaw] using h9
  · intro hb
    cases beh with
    | none => exact absurd rfl hb
    | some b => simp [norm]
  · intro hb
    cases beh with
    | none => exact absurd rfl hb
    | some b => cases pred <;> simp [norm]

/-! ### planning problem solutions -/

theorem Pps.check_ok {p q : Pps} : Pps.check p = .ok q ↔
    (q = p ∧ p.traj.validFor p.model = true ∧ (supportedCosts p.model).contains p.cost = true) := by
  unfold Pps.check
  cases h1 : p.traj.validFor p.model <;> cases h2 : (supportedCosts p.model).contains p.cost <;> simp [eq_comm]

/-! ### the Solution's dict of planning problem solutions -/

theorem foldl_insertPps_nodup : ∀ (l acc : List Pps), ((acc ++ l).map Pps.pid).Nodup →
    l.foldl insertPps acc = acc ++ l
  | [], acc, _ => by simp
  | p :: t, acc, h => by
    have hno : acc.any (fun q => decide (q.pid = p.pid)) = false := by
      rw [List.any_eq_false]
      intro q hq
      have hnd := h
      rw [List.map_append, List.nodup_append] at hnd
      have := hnd.2.2 q.pid (List.mem_map.2 ⟨q, hq, rfl⟩) p.pid (by simp)
      simpa using this
    have hstep : insertPps acc p = acc ++ [p] := by simp [insertPps, hno]
    rw [List.foldl_cons, hstep, foldl_insertPps_nodup t (acc ++ [p]) (by simpa using h)]
    simp

/-- with pairwise different planning problem ids the Solution holds exactly the list it was given, in that order -/
theorem solutionPps_nodup (l : List Pps) (h : (l.map Pps.pid).Nodup) : solutionPps l = l := by
  have := foldl_insertPps_nodup l [] (by simpa using h)
  simpa [solutionPps] using this

theorem zip3_map (l : List Pps) :
    zip3 (l.map fun p => (p.model, p.vtype)) (l.map Pps.cost) = l.map fun p => (p.model, p.vtype, p.cost) := by
  induction l with
  | nil => rfl
  | cons p t ih => simp [zip3] at ih ⊢

end CR.BenchId
