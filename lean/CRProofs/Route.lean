/-
  CRProofs.Route — invariants of the worklist loop of CRModel.Route (helper lemmas for CRProps/C20.lean).
-/
import CRModel.Route
import Mathlib.Tactic.Ring
import Mathlib.Tactic.Linarith
namespace CR.Route

/-- Consecutive elements are links of the relation `nbr` (successor resp. predecessor lists). -/
def Linked (nbr : Nat → List Nat) : Path → Prop
  | [] => True
  | [_] => True
  | a :: b :: t => b ∈ nbr a ∧ Linked nbr (b :: t)

/-- Accumulated length of a path. -/
def sumLen (len : Nat → Rat) : Path → Rat
  | [] => 0
  | a :: t => len a + sumLen len t

theorem sumLen_append_single (len : Nat → Rat) (p : Path) (s : Nat) :
    sumLen len (p ++ [s]) = sumLen len p + len s := by
  induction p with
  | nil => simp [sumLen]
  | cons a t ih => simp only [List.cons_append, sumLen, ih]; ring

theorem linked_append_single (nbr : Nat → List Nat) : ∀ (p : Path) (x s : Nat),
    Linked nbr p → p.getLast? = some x → s ∈ nbr x → Linked nbr (p ++ [s])
  | [], _, _, _, h, _ => by simp at h
  | [a], x, s, _, h, hs => by
    simp at h; subst h; exact ⟨hs, trivial⟩
  | a :: b :: t, x, s, hl, h, hs => by
    have h' : (b :: t).getLast? = some x := by
      rw [List.getLast?_cons_cons] at h; exact h
    exact ⟨hl.1, linked_append_single nbr (b :: t) x s hl.2 h' hs⟩

section
variable (nbr : Nat → List Nat) (len : Nat → Rat) (start : Nat) (maxLen : Rat)

/-- What the property demands of a returned path. -/
structure Sound (p : Path) : Prop where
  head : ∃ h t, p = h :: t ∧ h ∈ nbr start
  linked : Linked nbr p
  nodup : p.Nodup
  nostart : start ∉ p
  guard : ∀ j, 0 < j → j < p.length → sumLen len (p.take j) < maxLen

/-- Invariant of a worklist entry `(p, le)`. -/
structure Good (it : Item) : Prop where
  sound : Sound nbr len start maxLen it.1
  len_eq : it.2 = sumLen len it.1

variable {nbr len start maxLen}

theorem blocked_false {p : Path} {le : Rat} {s : Nat} (h : blocked start maxLen p le s = false) :
    s ∉ p ∧ s ≠ start ∧ le < maxLen := by
  simp only [blocked, Bool.or_eq_false_iff, decide_eq_false_iff_not] at h
  exact ⟨h.1.1, h.1.2, by have := h.2; exact lt_of_not_ge this⟩

theorem mem_nbrsOfLast {p : Path} {s : Nat} (h : s ∈ nbrsOfLast nbr p) :
    ∃ x, p.getLast? = some x ∧ s ∈ nbr x := by
  unfold nbrsOfLast at h
  cases hx : p.getLast? with
  | none => simp [hx] at h
  | some x => simp only [hx] at h; exact ⟨x, rfl, h⟩

/-- Extending an entry by an unblocked neighbour of its last element keeps the invariant
    (whatever the new accumulated length is). -/
theorem good_extend {p : Path} {le : Rat} {s : Nat} (hg : Good nbr len start maxLen (p, le))
    (hs : s ∈ nbrsOfLast nbr p) (hb : blocked start maxLen p le s = false) :
    Good nbr len start maxLen (p ++ [s], le + len s) := by
  obtain ⟨hsp, hss, hle⟩ := blocked_false hb
  obtain ⟨x, hx, hsx⟩ := mem_nbrsOfLast hs
  obtain ⟨⟨⟨h, t, hp, hh⟩, hl, hn, hst, hgd⟩, hlen⟩ := hg
  simp only at hp hl hn hst hgd hlen
  refine ⟨⟨⟨h, t ++ [s], by simp [hp], hh⟩, linked_append_single nbr p x s hl hx hsx, ?_, ?_, ?_⟩, ?_⟩
  · simp only
    rw [List.nodup_append]
    refine ⟨hn, by simp, ?_⟩
    intro a ha b hb'
    simp at hb'; subst hb'
    intro hab; subst hab; exact hsp ha
  · simp only [List.mem_append, List.mem_singleton, not_or]
    exact ⟨hst, fun h' => hss h'.symm⟩
  · intro j hj0 hj
    simp only [List.length_append, List.length_singleton] at hj
    have hjl : j ≤ p.length := by omega
    simp only
    rw [List.take_append_of_le_length hjl]
    by_cases hlt : j < p.length
    · exact hgd j hj0 hlt
    · have : j = p.length := by omega
      subst this
      rw [List.take_length, ← hlen]; exact hle
  · simp only
    rw [sumLen_append_single, hlen]

theorem good_of_mem_nexts {it x : Item} (hg : Good nbr len start maxLen it)
    (hx : x ∈ nexts nbr len start maxLen it) : Good nbr len start maxLen x := by
  obtain ⟨p, le⟩ := it
  simp only [nexts, List.mem_filterMap] at hx
  obtain ⟨s, hs, hsome⟩ := hx
  unfold nextOf at hsome
  cases hb : blocked start maxLen p le s with
  | true => simp [hb] at hsome
  | false =>
    simp only [hb, Bool.false_eq_true, if_false] at hsome
    split at hsome
    · simp only [Option.some.injEq] at hsome
      subst hsome
      exact good_extend hg hs hb
    · simp at hsome

theorem mem_nexts_shape {it x : Item} (hx : x ∈ nexts nbr len start maxLen it) :
    ∃ s, s ∈ nbrsOfLast nbr it.1 ∧ s ∉ it.1 ∧ x.1 = it.1 ++ [s] := by
  obtain ⟨p, le⟩ := it
  simp only [nexts, List.mem_filterMap] at hx
  obtain ⟨s, hs, hsome⟩ := hx
  unfold nextOf at hsome
  cases hb : blocked start maxLen p le s with
  | true => simp [hb] at hsome
  | false =>
    simp only [hb, Bool.false_eq_true, if_false] at hsome
    split at hsome
    · simp only [Option.some.injEq] at hsome
      subst hsome
      exact ⟨s, hs, (blocked_false hb).1, rfl⟩
    · simp at hsome

theorem sound_of_mem_finals {it : Item} {q : Path} (hg : Good nbr len start maxLen it)
    (hq : q ∈ finals nbr len start maxLen it) : Sound nbr len start maxLen q := by
  obtain ⟨p, le⟩ := it
  unfold finals at hq
  simp only at hq
  split at hq
  · simp at hq; subst hq; exact hg.sound
  · rename_i hne
    simp only [List.mem_filterMap] at hq
    obtain ⟨s, hs, hsome⟩ := hq
    unfold finalOf at hsome
    cases hb : blocked start maxLen p le s with
    | true =>
      simp [hb] at hsome; subst hsome; exact hg.sound
    | false =>
      simp only [hb, Bool.false_eq_true, if_false] at hsome
      split at hsome
      · simp at hsome
      · simp only [Option.some.injEq] at hsome
        subst hsome
        exact (good_extend hg hs hb).sound

/-- Soundness of the loop: every returned path satisfies `Sound`. -/
theorem loop_sound : ∀ (fuel : Nat) (paths : List Item) (final res : List Path),
    (∀ it ∈ paths, Good nbr len start maxLen it) → (∀ q ∈ final, Sound nbr len start maxLen q) →
    loop nbr len start maxLen fuel paths final = some res → ∀ q ∈ res, Sound nbr len start maxLen q
  | _, [], final, res, _, hf, h => by
    simp only [loop, Option.some.injEq] at h
    subst h; exact hf
  | 0, _ :: _, _, _, _, _, h => by simp [loop] at h
  | fuel + 1, it :: its, final, res, hp, hf, h => by
    simp only [loop] at h
    refine loop_sound fuel _ _ res ?_ ?_ h
    · intro x hx
      rw [List.mem_flatMap] at hx
      obtain ⟨i, hi, hxi⟩ := hx
      exact good_of_mem_nexts (hp i hi) hxi
    · intro q hq
      rw [List.mem_append] at hq
      rcases hq with hq | hq
      · exact hf q hq
      · rw [List.mem_flatMap] at hq
        obtain ⟨i, hi, hqi⟩ := hq
        exact sound_of_mem_finals (hp i hi) hqi

/-- Each worklist entry is continued: it is a prefix of something appended to `paths_final` or to `paths_next`. -/
theorem entry_continued (it : Item) :
    (∃ q ∈ finals nbr len start maxLen it, it.1 <+: q) ∨
    (∃ x ∈ nexts nbr len start maxLen it, it.1 <+: x.1) := by
  obtain ⟨p, le⟩ := it
  cases hss : nbrsOfLast nbr p with
  | nil =>
    left
    exact ⟨p, by simp [finals, hss], List.prefix_refl _⟩
  | cons s ss =>
    cases hb : blocked start maxLen p le s with
    | true =>
      left
      refine ⟨p, ?_, List.prefix_refl _⟩
      simp only [finals, hss, List.mem_filterMap]
      exact ⟨s, by simp, by simp [finalOf, hb]⟩
    | false =>
      by_cases hlt : le + len s < maxLen
      · right
        refine ⟨(p ++ [s], le + len s), ?_, List.prefix_append _ _⟩
        simp only [nexts, hss, List.mem_filterMap]
        exact ⟨s, by simp, by simp [nextOf, hb, hlt]⟩
      · left
        refine ⟨p ++ [s], ?_, List.prefix_append _ _⟩
        simp only [finals, hss, List.mem_filterMap]
        exact ⟨s, by simp, by simp [finalOf, hb, hlt]⟩

/-- Coverage of the loop: what is already final stays, and every worklist entry is a prefix of a returned path. -/
theorem loop_covers : ∀ (fuel : Nat) (paths : List Item) (final res : List Path),
    loop nbr len start maxLen fuel paths final = some res →
    (∀ q ∈ final, q ∈ res) ∧ ∀ it ∈ paths, ∃ q ∈ res, it.1 <+: q
  | _, [], final, res, h => by
    simp only [loop, Option.some.injEq] at h
    subst h; exact ⟨fun q hq => hq, by simp⟩
  | 0, _ :: _, _, _, h => by simp [loop] at h
  | fuel + 1, it :: its, final, res, h => by
    simp only [loop] at h
    obtain ⟨h1, h2⟩ := loop_covers fuel _ _ res h
    refine ⟨fun q hq => h1 q (List.mem_append_left _ hq), ?_⟩
    intro i hi
    rcases entry_continued (nbr := nbr) (len := len) (start := start) (maxLen := maxLen) i with ⟨q, hq, hpre⟩ | ⟨x, hx, hpre⟩
    · exact ⟨q, h1 q (List.mem_append_right _ (List.mem_flatMap.mpr ⟨i, hi, hq⟩)), hpre⟩
    · obtain ⟨q, hq, hpre'⟩ := h2 x (List.mem_flatMap.mpr ⟨i, hi, hx⟩)
      exact ⟨q, hq, hpre.trans hpre'⟩

/-- Termination of the loop: entries are duplicate-free lists over the finite node list `V`, and each round
    makes them one longer, so `|V| - n + 1` rounds empty the worklist. -/
theorem loop_terminates (V : List Nat) (hV : ∀ v s, s ∈ nbr v → s ∈ V) :
    ∀ (fuel n : Nat) (paths : List Item) (final : List Path),
    (∀ it ∈ paths, it.1.Nodup ∧ (∀ x ∈ it.1, x ∈ V) ∧ n ≤ it.1.length) → V.length < fuel + n →
    ∃ res, loop nbr len start maxLen fuel paths final = some res
  | _, _, [], final, _, _ => ⟨final, by simp [loop]⟩
  | 0, n, it :: its, _, hp, hf => by
    obtain ⟨hn, hsub, hlen⟩ := hp it (by simp)
    have := List.Nodup.length_le_of_subset hn (fun x hx => hsub x hx)
    omega
  | fuel + 1, n, it :: its, final, hp, hf => by
    simp only [loop]
    refine loop_terminates V hV fuel (n + 1) _ _ ?_ (by omega)
    intro x hx
    rw [List.mem_flatMap] at hx
    obtain ⟨i, hi, hxi⟩ := hx
    obtain ⟨s, hs, hsp, hshape⟩ := mem_nexts_shape hxi
    obtain ⟨hn, hsub, hlen⟩ := hp i hi
    obtain ⟨y, _, hsy⟩ := mem_nbrsOfLast hs
    rw [hshape]
    refine ⟨?_, ?_, by simp; omega⟩
    · rw [List.nodup_append]
      refine ⟨hn, by simp, ?_⟩
      intro a ha b hb'
      simp at hb'; subst hb'
      intro hab; subst hab; exact hsp ha
    · intro z hz
      simp only [List.mem_append, List.mem_singleton] at hz
      rcases hz with hz | hz
      · exact hsub z hz
      · subst hz; exact hV y z hsy

/-- More fuel does not change a result. -/
theorem loop_mono : ∀ (fuel : Nat) (paths : List Item) (final res : List Path),
    loop nbr len start maxLen fuel paths final = some res →
    loop nbr len start maxLen (fuel + 1) paths final = some res
  | _, [], final, res, h => by
    simp only [loop] at h ⊢; exact h
  | 0, _ :: _, _, _, h => by simp [loop] at h
  | fuel + 1, it :: its, final, res, h => by
    simp only [loop] at h
    have := loop_mono fuel _ _ res h
    simp only [loop]
    exact this

theorem loop_mono_add (fuel k : Nat) (paths : List Item) (final res : List Path)
    (h : loop nbr len start maxLen fuel paths final = some res) :
    loop nbr len start maxLen (fuel + k) paths final = some res := by
  induction k with
  | zero => exact h
  | succ k ih => exact loop_mono _ _ _ _ ih

/-- The initial worklist satisfies the invariant when the start lanelet is not its own neighbour. -/
theorem init_good (hself : start ∉ nbr start) :
    ∀ it ∈ initItems nbr len start, Good nbr len start maxLen it := by
  intro it hit
  simp only [initItems, List.mem_map] at hit
  obtain ⟨s, hs, rfl⟩ := hit
  refine ⟨⟨⟨s, [], rfl, hs⟩, trivial, by simp, ?_, ?_⟩, by simp [sumLen]⟩
  · simp only [List.mem_singleton]
    intro h; subst h; exact hself hs
  · intro j hj0 hj
    simp at hj; omega

end

/-! ### generations of the worklist and the exact characterisation of the result set -/

section
variable (nbr : Nat → List Nat) (len : Nat → Rat) (start : Nat) (maxLen : Rat)

/-- The worklist after `k` rounds of the `while` loop. -/
def genFrom (paths : List Item) : Nat → List Item
  | 0 => paths
  | k + 1 => genFrom (paths.flatMap (nexts nbr len start maxLen)) k

/-- A returned path stops for one of the reasons the code knows (lanelet.py:935-950):
    * it is the extension that reached the range (`l_next >= max_length`, :949-950), or
    * it is a worklist entry (a single direct neighbour, or accumulated length still below the range) whose last lanelet
      is a dead end (:935-936) or has SOME neighbour that is refused — already on the path, the start lanelet, or the
      accumulated length is at or beyond the range (:940-943). -/
def Stopped (q : Path) : Prop :=
  (2 ≤ q.length ∧ maxLen ≤ sumLen len q) ∨
  ((q.length = 1 ∨ sumLen len q < maxLen) ∧
    ∃ x, q.getLast? = some x ∧ (nbr x = [] ∨ ∃ s ∈ nbr x, s ∈ q ∨ s = start ∨ maxLen ≤ sumLen len q))

/-- Entry of the worklist in round `k`. -/
def EntryAt (k : Nat) (it : Item) : Prop :=
  Good nbr len start maxLen it ∧ it.1.length = k + 1 ∧ (k = 0 ∨ it.2 < maxLen)

variable {nbr len start maxLen}

theorem genFrom_nil : ∀ k, genFrom nbr len start maxLen [] k = []
  | 0 => rfl
  | k + 1 => by simp [genFrom, genFrom_nil k]

theorem genFrom_succ' : ∀ (k : Nat) (paths : List Item),
    genFrom nbr len start maxLen paths (k + 1) = (genFrom nbr len start maxLen paths k).flatMap (nexts nbr len start maxLen)
  | 0, _ => rfl
  | k + 1, paths => by
    have := genFrom_succ' k (paths.flatMap (nexts nbr len start maxLen))
    simp only [genFrom] at this ⊢
    exact this

theorem mem_nexts_iff {p : Path} {le : Rat} {x : Item} :
    x ∈ nexts nbr len start maxLen (p, le) ↔
      ∃ s ∈ nbrsOfLast nbr p, blocked start maxLen p le s = false ∧ le + len s < maxLen ∧ x = (p ++ [s], le + len s) := by
  simp only [nexts, List.mem_filterMap]
  constructor
  · rintro ⟨s, hs, hsome⟩
    unfold nextOf at hsome
    cases hb : blocked start maxLen p le s with
    | true => simp [hb] at hsome
    | false =>
      simp only [hb, Bool.false_eq_true, if_false] at hsome
      split at hsome
      · rename_i hlt
        simp only [Option.some.injEq] at hsome
        exact ⟨s, hs, hb, hlt, hsome.symm⟩
      · simp at hsome
  · rintro ⟨s, hs, hb, hlt, rfl⟩
    exact ⟨s, hs, by simp [nextOf, hb, hlt]⟩

theorem mem_finals_iff {p : Path} {le : Rat} {q : Path} :
    q ∈ finals nbr len start maxLen (p, le) ↔
      (nbrsOfLast nbr p = [] ∧ q = p) ∨
      (∃ s ∈ nbrsOfLast nbr p, blocked start maxLen p le s = true ∧ q = p) ∨
      (∃ s ∈ nbrsOfLast nbr p, blocked start maxLen p le s = false ∧ ¬ (le + len s < maxLen) ∧ q = p ++ [s]) := by
  unfold finals
  simp only
  cases hss : nbrsOfLast nbr p with
  | nil => simp
  | cons a as =>
    simp only [List.mem_filterMap]
    constructor
    · rintro ⟨s, hs, hsome⟩
      unfold finalOf at hsome
      cases hb : blocked start maxLen p le s with
      | true =>
        simp [hb] at hsome
        exact Or.inr (Or.inl ⟨s, hs, hb, hsome.symm⟩)
      | false =>
        simp only [hb, Bool.false_eq_true, if_false] at hsome
        split at hsome
        · simp at hsome
        · rename_i hlt
          simp only [Option.some.injEq] at hsome
          exact Or.inr (Or.inr ⟨s, hs, hb, hlt, hsome.symm⟩)
    · rintro (⟨h, _⟩ | ⟨s, hs, hb, rfl⟩ | ⟨s, hs, hb, hlt, rfl⟩)
      · simp at h
      · exact ⟨s, hs, by simp [finalOf, hb]⟩
      · exact ⟨s, hs, by simp [finalOf, hb, hlt]⟩

theorem linked_snoc_inv : ∀ (p : Path) (s : Nat), p ≠ [] → Linked nbr (p ++ [s]) →
    Linked nbr p ∧ ∃ x, p.getLast? = some x ∧ s ∈ nbr x
  | [], _, h, _ => absurd rfl h
  | [a], s, _, hl => ⟨trivial, a, rfl, hl.1⟩
  | a :: b :: t, s, _, hl => by
    obtain ⟨h1, x, hx, hs⟩ := linked_snoc_inv (b :: t) s (by simp) hl.2
    exact ⟨⟨hl.1, h1⟩, x, by rw [List.getLast?_cons_cons]; exact hx, hs⟩

/-- The converse of `good_extend`: the last step of a sound path was an admissible extension of a sound path. -/
theorem sound_unextend {p : Path} {s : Nat} (hp : p ≠ []) (h : Sound nbr len start maxLen (p ++ [s])) :
    Sound nbr len start maxLen p ∧ s ∈ nbrsOfLast nbr p ∧ blocked start maxLen p (sumLen len p) s = false := by
  obtain ⟨⟨hd, tl, hq, hh⟩, hl, hn, hst, hg⟩ := h
  obtain ⟨hlp, x, hx, hsx⟩ := linked_snoc_inv p s hp hl
  rw [List.nodup_append] at hn
  obtain ⟨hnp, _, hdis⟩ := hn
  have hsp : s ∉ p := fun hmem => hdis s hmem s (by simp) rfl
  simp only [List.mem_append, List.mem_singleton, not_or] at hst
  have hlen : 0 < p.length := List.length_pos_iff.mpr hp
  have hlt : sumLen len p < maxLen := by
    have := hg p.length hlen (by simp)
    rwa [List.take_append_of_le_length (Nat.le_refl _), List.take_length] at this
  refine ⟨⟨?_, hlp, hnp, hst.1, ?_⟩, ?_, ?_⟩
  · cases p with
    | nil => exact absurd rfl hp
    | cons a t =>
      simp only [List.cons_append, List.cons.injEq] at hq
      exact ⟨a, t, rfl, hq.1 ▸ hh⟩
  · intro j hj0 hj
    have := hg j hj0 (by simp; omega)
    rwa [List.take_append_of_le_length (by omega)] at this
  · simp [nbrsOfLast, hx, hsx]
  · simp only [blocked, Bool.or_eq_false_iff, decide_eq_false_iff_not]
    exact ⟨⟨hsp, fun h' => hst.2 h'.symm⟩, not_le.mpr hlt⟩

theorem exists_snoc_of_length {p : Path} {k : Nat} (h : p.length = k + 2) :
    ∃ p' s, p = p' ++ [s] ∧ p'.length = k + 1 := by
  have hne : p ≠ [] := by intro h0; simp [h0] at h
  refine ⟨p.dropLast, p.getLast hne, (List.dropLast_concat_getLast hne).symm, ?_⟩
  simp [List.length_dropLast, h]

/-- Exactly the invariant-satisfying chains of length `k+1` (accumulated length below the range for `k ≥ 1`) are on the
    worklist in round `k`: nothing the rule generates is lost. -/
theorem mem_gen_iff (hself : start ∉ nbr start) : ∀ (k : Nat) (it : Item),
    it ∈ genFrom nbr len start maxLen (initItems nbr len start) k ↔ EntryAt nbr len start maxLen k it
  | 0, it => by
    simp only [genFrom, EntryAt, true_or, and_true]
    constructor
    · intro h
      refine ⟨init_good hself it h, ?_⟩
      simp only [initItems, List.mem_map] at h
      obtain ⟨s, _, rfl⟩ := h
      rfl
    · rintro ⟨hg, hlen⟩
      obtain ⟨p, le⟩ := it
      obtain ⟨hd, tl, hq, hh⟩ := hg.sound.head
      simp only at hq hlen
      subst hq
      have htl : tl = [] := by
        simp only [List.length_cons] at hlen
        exact List.length_eq_zero_iff.mp (by omega)
      subst htl
      have hle : le = len hd := by have := hg.len_eq; simpa [sumLen] using this
      subst hle
      simp only [initItems, List.mem_map]
      exact ⟨hd, hh, rfl⟩
  | k + 1, it => by
    rw [genFrom_succ', List.mem_flatMap]
    constructor
    · rintro ⟨i, hi, hit⟩
      obtain ⟨hgi, hleni, _⟩ := (mem_gen_iff hself k i).mp hi
      obtain ⟨p, le⟩ := i
      obtain ⟨s, _, _, hlt, rfl⟩ := mem_nexts_iff.mp hit
      refine ⟨good_of_mem_nexts hgi hit, ?_, Or.inr hlt⟩
      simp only at hleni
      simp [hleni]
    · rintro ⟨hg, hlen, hlt⟩
      obtain ⟨q, le⟩ := it
      simp only at hlen
      obtain ⟨p, s, rfl, hpl⟩ := exists_snoc_of_length hlen
      have hp : p ≠ [] := by intro h0; simp [h0] at hpl
      obtain ⟨hsp, hs, hb⟩ := sound_unextend hp hg.sound
      have hle : le = sumLen len p + len s := by
        have := hg.len_eq; simp only at this; rw [this, sumLen_append_single]
      have hlt' : le < maxLen := by
        rcases hlt with h0 | h1
        · omega
        · exact h1
      have hpm : sumLen len p < maxLen := (blocked_false hb).2.2
      refine ⟨(p, sumLen len p), (mem_gen_iff hself k _).mpr ⟨⟨hsp, rfl⟩, hpl, Or.inr hpm⟩, ?_⟩
      rw [mem_nexts_iff]
      exact ⟨s, hs, hb, by rw [← hle]; exact hlt', by rw [hle]⟩

/-- Membership in the result of the loop: what was final before, or a `finals` entry of some round. -/
theorem loop_mem : ∀ (fuel : Nat) (paths : List Item) (final res : List Path),
    loop nbr len start maxLen fuel paths final = some res →
    ∀ q, q ∈ res ↔ q ∈ final ∨ ∃ k, ∃ it ∈ genFrom nbr len start maxLen paths k, q ∈ finals nbr len start maxLen it
  | _, [], final, res, h => by
    simp only [loop, Option.some.injEq] at h
    subst h
    intro q
    simp [genFrom_nil]
  | 0, _ :: _, _, _, h => by simp [loop] at h
  | fuel + 1, it :: its, final, res, h => by
    simp only [loop] at h
    have ih := loop_mem fuel _ _ res h
    intro q
    rw [ih q, List.mem_append, List.mem_flatMap]
    constructor
    · rintro ((hq | ⟨i, hi, hqi⟩) | ⟨k, i, hi, hqi⟩)
      · exact Or.inl hq
      · exact Or.inr ⟨0, i, hi, hqi⟩
      · exact Or.inr ⟨k + 1, i, hi, hqi⟩
    · rintro (hq | ⟨k, i, hi, hqi⟩)
      · exact Or.inl (Or.inl hq)
      · cases k with
        | zero => exact Or.inl (Or.inr ⟨i, hi, hqi⟩)
        | succ k => exact Or.inr ⟨k, i, hi, hqi⟩

/-- Every entry of every round is a prefix of a returned path. -/
theorem loop_covers_gen : ∀ (fuel : Nat) (paths : List Item) (final res : List Path),
    loop nbr len start maxLen fuel paths final = some res →
    ∀ k, ∀ it ∈ genFrom nbr len start maxLen paths k, ∃ q ∈ res, it.1 <+: q
  | _, [], _, _, _ => by intro k it hit; simp [genFrom_nil] at hit
  | 0, _ :: _, _, _, h => by simp [loop] at h
  | fuel + 1, it :: its, final, res, h => by
    intro k
    cases k with
    | zero => exact (loop_covers (fuel + 1) (it :: its) final res h).2
    | succ k =>
      simp only [loop] at h
      exact loop_covers_gen fuel _ _ res h k

/-- **Exact characterisation of the result set**: the returned paths are precisely the sound chains that stopped for one
    of the code's reasons. -/
theorem mem_result_iff (hself : start ∉ nbr start) (fuel : Nat) (res : List Path)
    (h : findInRange nbr len start maxLen fuel = some res) (q : Path) :
    q ∈ res ↔ Sound nbr len start maxLen q ∧ Stopped nbr len start maxLen q := by
  unfold findInRange at h
  rw [loop_mem fuel _ _ res h q]
  simp only [List.not_mem_nil, false_or]
  constructor
  · rintro ⟨k, it, hit, hq⟩
    obtain ⟨hg, hlen, hk⟩ := (mem_gen_iff hself k it).mp hit
    obtain ⟨p, le⟩ := it
    have hle : le = sumLen len p := hg.len_eq
    simp only at hlen
    have hp : p ≠ [] := by intro h0; simp [h0] at hlen
    have hentry : p.length = 1 ∨ sumLen len p < maxLen := by
      rcases hk with h0 | h1
      · left; omega
      · right; rw [← hle]; exact h1
    obtain ⟨x, hx⟩ : ∃ x, p.getLast? = some x := by
      cases hgl : p.getLast? with
      | none => exact absurd (List.getLast?_eq_none_iff.mp hgl) hp
      | some x => exact ⟨x, rfl⟩
    have hnl : nbrsOfLast nbr p = nbr x := by simp [nbrsOfLast, hx]
    rcases mem_finals_iff.mp hq with ⟨hnil, rfl⟩ | ⟨s, hs, hb, rfl⟩ | ⟨s, hs, hb, hlt, rfl⟩
    · exact ⟨hg.sound, Or.inr ⟨hentry, x, hx, Or.inl (by rw [← hnl]; exact hnil)⟩⟩
    · refine ⟨hg.sound, Or.inr ⟨hentry, x, hx, Or.inr ⟨s, by rw [← hnl]; exact hs, ?_⟩⟩⟩
      simp only [blocked, Bool.or_eq_true, decide_eq_true_eq] at hb
      rcases hb with (h1 | h2) | h3
      · exact Or.inl h1
      · exact Or.inr (Or.inl h2)
      · exact Or.inr (Or.inr (by rw [← hle]; exact h3))
    · refine ⟨(good_extend hg hs hb).sound, Or.inl ⟨by simp; omega, ?_⟩⟩
      rw [sumLen_append_single, ← hle]
      exact not_lt.mp hlt
  · rintro ⟨hs, hstop⟩
    obtain ⟨hd, tl, hq, _⟩ := hs.head
    rcases hstop with ⟨h2, hge⟩ | ⟨hentry, x, hx, hwhy⟩
    · obtain ⟨k, hk⟩ : ∃ k, q.length = k + 2 := ⟨q.length - 2, by omega⟩
      obtain ⟨p, s, rfl, hpl⟩ := exists_snoc_of_length hk
      have hp : p ≠ [] := by intro h0; simp [h0] at hpl
      obtain ⟨hsp, hsn, hb⟩ := sound_unextend hp hs
      have hpm : sumLen len p < maxLen := (blocked_false hb).2.2
      refine ⟨k, (p, sumLen len p), (mem_gen_iff hself k _).mpr ⟨⟨hsp, rfl⟩, hpl, Or.inr hpm⟩, ?_⟩
      rw [mem_finals_iff]
      refine Or.inr (Or.inr ⟨s, hsn, hb, ?_, rfl⟩)
      rw [sumLen_append_single] at hge
      exact not_lt.mpr hge
    · have hql : q.length = (q.length - 1) + 1 := by subst hq; simp
      have hnl : nbrsOfLast nbr q = nbr x := by simp [nbrsOfLast, hx]
      refine ⟨q.length - 1, (q, sumLen len q), (mem_gen_iff hself _ _).mpr ⟨⟨hs, rfl⟩, hql, ?_⟩, ?_⟩
      · rcases hentry with h1 | h1
        · left; omega
        · right; exact h1
      · rw [mem_finals_iff]
        rcases hwhy with hnil | ⟨s, hsx, hwhy⟩
        · exact Or.inl ⟨by rw [hnl]; exact hnil, rfl⟩
        · refine Or.inr (Or.inl ⟨s, by rw [hnl]; exact hsx, ?_, rfl⟩)
          simp only [blocked, Bool.or_eq_true, decide_eq_true_eq]
          rcases hwhy with h1 | h2 | h3
          · exact Or.inl (Or.inl h1)
          · exact Or.inl (Or.inr h2)
          · exact Or.inr h3

end

/-! ### networks given as data -/

theorem lookup_mem {g : List Node} {i : Nat} {n : Node} (h : lookup g i = some n) : n ∈ g :=
  List.mem_of_find?_eq_some h

theorem closed_succ {g : List Node} {start : Nat} (hc : closedNet g start = true) :
    ∀ v s, s ∈ succOf g v → s ∈ ids g := by
  intro v s hs
  unfold succOf at hs
  cases hl : lookup g v with
  | none => simp [hl] at hs
  | some n =>
    simp only [hl] at hs
    simp only [closedNet, Bool.and_eq_true, List.all_eq_true, decide_eq_true_eq] at hc
    exact (hc.2 n (lookup_mem hl)).1 s hs

theorem closed_pred {g : List Node} {start : Nat} (hc : closedNet g start = true) :
    ∀ v s, s ∈ predOf g v → s ∈ ids g := by
  intro v s hs
  unfold predOf at hs
  cases hl : lookup g v with
  | none => simp [hl] at hs
  | some n =>
    simp only [hl] at hs
    simp only [closedNet, Bool.and_eq_true, List.all_eq_true, decide_eq_true_eq] at hc
    exact (hc.2 n (lookup_mem hl)).2 s hs

/-! ### the loop with failing lookups agrees with the total loop on closed networks -/

/-- The total link function induced by the data network and a selector (`·.succ` / `·.pred`). -/
def nbrFn (g : List Node) (nbrOf : Node → List Nat) (i : Nat) : List Nat :=
  match lookup g i with | some n => nbrOf n | none => []

theorem succOf_eq (g : List Node) : succOf g = nbrFn g (·.succ) := by
  funext i; simp only [succOf, nbrFn]; cases lookup g i <;> rfl
theorem predOf_eq (g : List Node) : predOf g = nbrFn g (·.pred) := by
  funext i; simp only [predOf, nbrFn]; cases lookup g i <;> rfl

theorem lookup_of_mem_ids {g : List Node} {i : Nat} (h : i ∈ ids g) : ∃ nd, lookup g i = some nd := by
  simp only [ids, List.mem_map] at h
  obtain ⟨n, hn, hid⟩ := h
  cases hl : lookup g i with
  | some nd => exact ⟨nd, rfl⟩
  | none =>
    simp only [lookup, List.find?_eq_none, decide_eq_true_eq] at hl
    exact absurd hid (hl n hn)

section
variable {g : List Node} {nbrOf : Node → List Nat} {start : Nat} {maxLen : Rat}

theorem expandR_eq (p : Path) (le : Rat) : ∀ (ss : List Nat), (∀ s ∈ ss, s ∈ ids g) →
    expandR g start maxLen p le ss =
      .ok (ss.filterMap (finalOf (lenOf g) start maxLen p le), ss.filterMap (nextOf (lenOf g) start maxLen p le))
  | [], _ => by simp [expandR]
  | s :: ss, h => by
    have ih := expandR_eq p le ss (fun x hx => h x (by simp [hx]))
    obtain ⟨nd, hnd⟩ := lookup_of_mem_ids (h s (by simp))
    have hlen : lenOf g s = nd.len := by simp [lenOf, hnd]
    unfold expandR
    rw [ih]
    cases hb : blocked start maxLen p le s with
    | true => simp [finalOf, nextOf, hb]
    | false =>
      simp only [hnd, Bool.false_eq_true, if_false]
      by_cases hlt : le + nd.len < maxLen
      · simp [finalOf, nextOf, hb, hlen, hlt]
      · simp [finalOf, nextOf, hb, hlen, hlt]

theorem itemR_eq (hcl : ∀ v s, s ∈ nbrFn g nbrOf v → s ∈ ids g) (it : Item) (x : Nat)
    (hx : it.1.getLast? = some x) (hxi : x ∈ ids g) :
    itemR g nbrOf start maxLen it =
      .ok (finals (nbrFn g nbrOf) (lenOf g) start maxLen it, nexts (nbrFn g nbrOf) (lenOf g) start maxLen it) := by
  obtain ⟨nd, hnd⟩ := lookup_of_mem_ids hxi
  have hn : nbrFn g nbrOf x = nbrOf nd := by simp [nbrFn, hnd]
  have hl : nbrsOfLast (nbrFn g nbrOf) it.1 = nbrOf nd := by simp [nbrsOfLast, hx, hn]
  unfold itemR finals nexts
  simp only [hx, hnd, hl]
  cases hss : nbrOf nd with
  | nil => simp
  | cons s ss =>
    simp only
    rw [expandR_eq it.1 it.2 (s :: ss)]
    intro y hy
    exact hcl x y (by rw [hn, hss]; exact hy)

theorem roundR_eq (hcl : ∀ v s, s ∈ nbrFn g nbrOf v → s ∈ ids g) : ∀ (paths : List Item),
    (∀ it ∈ paths, ∃ x, it.1.getLast? = some x ∧ x ∈ ids g) →
    roundR g nbrOf start maxLen paths =
      .ok (paths.flatMap (finals (nbrFn g nbrOf) (lenOf g) start maxLen),
           paths.flatMap (nexts (nbrFn g nbrOf) (lenOf g) start maxLen))
  | [], _ => by simp [roundR]
  | it :: its, h => by
    obtain ⟨x, hx, hxi⟩ := h it (by simp)
    unfold roundR
    rw [itemR_eq hcl it x hx hxi, roundR_eq hcl its (fun i hi => h i (by simp [hi]))]
    simp [List.flatMap_cons]

theorem loopR_eq (hcl : ∀ v s, s ∈ nbrFn g nbrOf v → s ∈ ids g) : ∀ (fuel : Nat) (paths : List Item) (final : List Path),
    (∀ it ∈ paths, ∃ x, it.1.getLast? = some x ∧ x ∈ ids g) →
    loopR g nbrOf start maxLen fuel paths final =
      match loop (nbrFn g nbrOf) (lenOf g) start maxLen fuel paths final with
      | some r => .ok r
      | none => .error .other
  | _, [], final, _ => by simp [loopR, loop]
  | 0, _ :: _, _, _ => by simp [loopR, loop]
  | fuel + 1, it :: its, final, h => by
    unfold loopR loop
    rw [roundR_eq hcl (it :: its) h]
    simp only
    refine loopR_eq hcl fuel _ _ ?_
    intro x hx
    rw [List.mem_flatMap] at hx
    obtain ⟨i, hi, hxi⟩ := hx
    obtain ⟨s, hs, _, hshape⟩ := mem_nexts_shape hxi
    obtain ⟨y, _, hsy⟩ := mem_nbrsOfLast hs
    exact ⟨s, by rw [hshape]; simp, hcl y s hsy⟩

theorem initR_eq : ∀ (l : List Nat), (∀ s ∈ l, s ∈ ids g) →
    initR g l = .ok (l.map fun s => ([s], lenOf g s))
  | [], _ => by simp [initR]
  | s :: ss, h => by
    obtain ⟨nd, hnd⟩ := lookup_of_mem_ids (h s (by simp))
    have hlen : lenOf g s = nd.len := by simp [lenOf, hnd]
    unfold initR
    rw [initR_eq ss (fun x hx => h x (by simp [hx]))]
    simp [hnd, hlen]

/-- On a closed network the loop with failing lookups is the total loop. -/
theorem findR_eq (hcl : ∀ v s, s ∈ nbrFn g nbrOf v → s ∈ ids g) (hst : start ∈ ids g) :
    findInRangeR g nbrOf start maxLen =
      match findInRange (nbrFn g nbrOf) (lenOf g) start maxLen (fuelFor g) with
      | some r => .ok r
      | none => .error .other := by
  obtain ⟨st, hstl⟩ := lookup_of_mem_ids hst
  have hn : nbrFn g nbrOf start = nbrOf st := by simp [nbrFn, hstl]
  have hin : ∀ s ∈ nbrOf st, s ∈ ids g := fun s hs => hcl start s (by rw [hn]; exact hs)
  unfold findInRangeR findInRange initItems
  simp only [hstl, initR_eq (nbrOf st) hin, hn]
  refine loopR_eq hcl _ _ _ ?_
  intro it hit
  simp only [List.mem_map] at hit
  obtain ⟨s, hs, rfl⟩ := hit
  exact ⟨s, by simp, hin s hs⟩

end

theorem closed_start {g : List Node} {start : Nat} (hc : closedNet g start = true) : start ∈ ids g := by
  simp only [closedNet, Bool.and_eq_true, decide_eq_true_eq] at hc
  exact hc.1

end CR.Route
