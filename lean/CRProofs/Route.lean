/-
  CRProofs.Route — invariants of the worklist loop of CRModel.Route (helper lemmas for CRProps/C20.lean).
-/
import CRModel.Route
import Mathlib.Tactic.Ring
import Mathlib.Tactic.Linarith
namespace CR.Route

/-- Consecutive elements are links of the relation `nbr` (successor resp. predecessor lists). -/
def Linked (nbr : Nat → List Nat) : Path → Prop
  | [] => True
  | [_] => True
  | a :: b :: t => b ∈ nbr a ∧ Linked nbr (b :: t)

/-- Accumulated length of a path. -/
def sumLen (len : Nat → Rat) : Path → Rat
  | [] => 0
  | a :: t => len a + sumLen len t

theorem sumLen_append_single (len : Nat → Rat) (p : Path) (s : Nat) :
    sumLen len (p ++ [s]) = sumLen len p + len s := by
  induction p with
  | nil => simp [sumLen]
  | cons a t ih => simp only [List.cons_append, sumLen, ih]; ring

theorem linked_append_single (nbr : Nat → List Nat) : ∀ (p : Path) (x s : Nat),
    Linked nbr p → p.getLast? = some x → s ∈ nbr x → Linked nbr (p ++ [s])
  | [], _, _, _, h, _ => by simp at h
  | [a], x, s, _, h, hs => by
    simp at h; subst h; exact ⟨hs, trivial⟩
  | a :: b :: t, x, s, hl, h, hs => by
    have h' : (b :: t).getLast? = some x := by
      rw [List.getLast?_cons_cons] at h; exact h
    exact ⟨hl.1, linked_append_single nbr (b :: t) x s hl.2 h' hs⟩

section
variable (nbr : Nat → List Nat) (len : Nat → Rat) (start : Nat) (maxLen : Rat)

/-- What the property demands of a returned path. -/
structure Sound (p : Path) : Prop where
  head : ∃ h t, p = h :: t ∧ h ∈ nbr start
  linked : Linked nbr p
  nodup : p.Nodup
  nostart : start ∉ p
  guard : ∀ j, 0 < j → j < p.length → sumLen len (p.take j) < maxLen

/-- Invariant of a worklist entry `(p, le)`. -/
structure Good (it : Item) : Prop where
  sound : Sound nbr len start maxLen it.1
  len_eq : it.2 = sumLen len it.1

variable {nbr len start maxLen}

theorem blocked_false {p : Path} {le : Rat} {s : Nat} (h : blocked start maxLen p le s = false) :
    s ∉ p ∧ s ≠ start ∧ le < maxLen := by
  simp only [blocked, Bool.or_eq_false_iff, decide_eq_false_iff_not] at h
  exact ⟨h.1.1, h.1.2, by have := h.2; exact lt_of_not_ge this⟩

theorem mem_nbrsOfLast {p : Path} {s : Nat} (h : s ∈ nbrsOfLast nbr p) :
    ∃ x, p.getLast? = some x ∧ s ∈ nbr x := by
  unfold nbrsOfLast at h
  cases hx : p.getLast? with
  | none => simp [hx] at h
  | some x => simp only [hx] at h; exact ⟨x, rfl, h⟩

/-- Extending an entry by an unblocked neighbour of its last element keeps the invariant
    (whatever the new accumulated length is). -/
theorem good_extend {p : Path} {le : Rat} {s : Nat} (hg : Good nbr len start maxLen (p, le))
    (hs : s ∈ nbrsOfLast nbr p) (hb : blocked start maxLen p le s = false) :
    Good nbr len start maxLen (p ++ [s], le + len s) := by
  obtain ⟨hsp, hss, hle⟩ := blocked_false hb
  obtain ⟨x, hx, hsx⟩ := mem_nbrsOfLast hs
  obtain ⟨⟨⟨h, t, hp, hh⟩, hl, hn, hst, hgd⟩, hlen⟩ := hg
  simp only at hp hl hn hst hgd hlen
  refine ⟨⟨⟨h, t ++ [s], by simp [hp], hh⟩, linked_append_single nbr p x s hl hx hsx, ?_, ?_, ?_⟩, ?_⟩
  · simp only
    rw [List.nodup_append]
    refine ⟨hn, by simp, ?_⟩
    intro a ha b hb'
    simp at hb'; subst hb'
    intro hab; subst hab; exact hsp ha
  · simp only [List.mem_append, List.mem_singleton, not_or]
    exact ⟨hst, fun h' => hss h'.symm⟩
  · intro j hj0 hj
    simp only [List.length_append, List.length_singleton] at hj
    have hjl : j ≤ p.length := by omega
    simp only
    rw [List.take_append_of_le_length hjl]
    by_cases hlt : j < p.length
    · exact hgd j hj0 hlt
    · have : j = p.length := by omega
      subst this
      rw [List.take_length, ← hlen]; exact hle
  · simp only
    rw [sumLen_append_single, hlen]

theorem good_of_mem_nexts {it x : Item} (hg : Good nbr len start maxLen it)
    (hx : x ∈ nexts nbr len start maxLen it) : Good nbr len start maxLen x := by
  obtain ⟨p, le⟩ := it
  simp only [nexts, List.mem_filterMap] at hx
  obtain ⟨s, hs, hsome⟩ := hx
  unfold nextOf at hsome
  cases hb : blocked start maxLen p le s with
  | true => simp [hb] at hsome
  | false =>
    simp only [hb, Bool.false_eq_true, if_false] at hsome
    split at hsome
    · simp only [Option.some.injEq] at hsome
      subst hsome
      exact good_extend hg hs hb
    · simp at hsome

theorem mem_nexts_shape {it x : Item} (hx : x ∈ nexts nbr len start maxLen it) :
    ∃ s, s ∈ nbrsOfLast nbr it.1 ∧ s ∉ it.1 ∧ x.1 = it.1 ++ [s] := by
  obtain ⟨p, le⟩ := it
  simp only [nexts, List.mem_filterMap] at hx
  obtain ⟨s, hs, hsome⟩ := hx
  unfold nextOf at hsome
  cases hb : blocked start maxLen p le s with
  | true => simp [hb] at hsome
  | false =>
    simp only [hb, Bool.false_eq_true, if_false] at hsome
    split at hsome
    · simp only [Option.some.injEq] at hsome
      subst hsome
      exact ⟨s, hs, (blocked_false hb).1, rfl⟩
    · simp at hsome

theorem sound_of_mem_finals {it : Item} {q : Path} (hg : Good nbr len start maxLen it)
    (hq : q ∈ finals nbr len start maxLen it) : Sound nbr len start maxLen q := by
  obtain ⟨p, le⟩ := it
  unfold finals at hq
  simp only at hq
  split at hq
  · simp at hq; subst hq; exact hg.sound
  · rename_i hne
    simp only [List.mem_filterMap] at hq
    obtain ⟨s, hs, hsome⟩ := hq
    unfold finalOf at hsome
    cases hb : blocked start maxLen p le s with
    | true =>
      simp [hb] at hsome; subst hsome; exact hg.sound
    | false =>
      simp only [hb, Bool.false_eq_true, if_false] at hsome
      split at hsome
      · simp at hsome
      · simp only [Option.some.injEq] at hsome
        subst hsome
        exact (good_extend hg hs hb).sound

/-- Soundness of the loop: every returned path satisfies `Sound`. -/
theorem loop_sound : ∀ (fuel : Nat) (paths : List Item) (final res : List Path),
    (∀ it ∈ paths, Good nbr len start maxLen it) → (∀ q ∈ final, Sound nbr len start maxLen q) →
    loop nbr len start maxLen fuel paths final = some res → ∀ q ∈ res, Sound nbr len start maxLen q
  | _, [], final, res, _, hf, h => by
    simp only [loop, Option.some.injEq] at h
    subst h; exact hf
  | 0, _ :: _, _, _, _, _, h => by simp [loop] at h
  | fuel + 1, it :: its, final, res, hp, hf, h => by
    simp only [loop] at h
    refine loop_sound fuel _ _ res ?_ ?_ h
    · intro x hx
      rw [List.mem_flatMap] at hx
      obtain ⟨i, hi, hxi⟩ := hx
      exact good_of_mem_nexts (hp i hi) hxi
    · intro q hq
      rw [List.mem_append] at hq
      rcases hq with hq | hq
      · exact hf q hq
      · rw [List.mem_flatMap] at hq
        obtain ⟨i, hi, hqi⟩ := hq
        exact sound_of_mem_finals (hp i hi) hqi

/-- Each worklist entry is continued: it is a prefix of something appended to `paths_final` or to `paths_next`. -/
theorem entry_continued (it : Item) :
    (∃ q ∈ finals nbr len start maxLen it, it.1 <+: q) ∨
    (∃ x ∈ nexts nbr len start maxLen it, it.1 <+: x.1) := by
  obtain ⟨p, le⟩ := it
  cases hss : nbrsOfLast nbr p with
  | nil =>
    left
    exact ⟨p, by simp [finals, hss], List.prefix_refl _⟩
  | cons s ss =>
    cases hb : blocked start maxLen p le s with
    | true =>
      left
      refine ⟨p, ?_, List.prefix_refl _⟩
      simp only [finals, hss, List.mem_filterMap]
      exact ⟨s, by simp, by simp [finalOf, hb]⟩
    | false =>
      by_cases hlt : le + len s < maxLen
      · right
        refine ⟨(p ++ [s], le + len s), ?_, List.prefix_append _ _⟩
        simp only [nexts, hss, List.mem_filterMap]
        exact ⟨s, by simp, by simp [nextOf, hb, hlt]⟩
      · left
        refine ⟨p ++ [s], ?_, List.prefix_append _ _⟩
        simp only [finals, hss, List.mem_filterMap]
        exact ⟨s, by simp, by simp [finalOf, hb, hlt]⟩

/-- Coverage of the loop: what is already final stays, and every worklist entry is a prefix of a returned path. -/
theorem loop_covers : ∀ (fuel : Nat) (paths : List Item) (final res : List Path),
    loop nbr len start maxLen fuel paths final = some res →
    (∀ q ∈ final, q ∈ res) ∧ ∀ it ∈ paths, ∃ q ∈ res, it.1 <+: q
  | _, [], final, res, h => by
    simp only [loop, Option.some.injEq] at h
    subst h; exact ⟨fun q hq => hq, by simp⟩
  | 0, _ :: _, _, _, h => by simp [loop] at h
  | fuel + 1, it :: its, final, res, h => by
    simp only [loop] at h
    obtain ⟨h1, h2⟩ := loop_covers fuel _ _ res h
    refine ⟨fun q hq => h1 q (List.mem_append_left _ hq), ?_⟩
    intro i hi
    rcases entry_continued (nbr := nbr) (len := len) (start := start) (maxLen := maxLen) i with ⟨q, hq, hpre⟩ | ⟨x, hx, hpre⟩
    · exact ⟨q, h1 q (List.mem_append_right _ (List.mem_flatMap.mpr ⟨i, hi, hq⟩)), hpre⟩
    · obtain ⟨q, hq, hpre'⟩ := h2 x (List.mem_flatMap.mpr ⟨i, hi, hx⟩)
      exact ⟨q, hq, hpre.trans hpre'⟩

/-- Termination of the loop: entries are duplicate-free lists over the finite node list `V`, and each round
    makes them one longer, so `|V| - n + 1` rounds empty the worklist. -/
theorem loop_terminates (V : List Nat) (hV : ∀ v s, s ∈ nbr v → s ∈ V) :
    ∀ (fuel n : Nat) (paths : List Item) (final : List Path),
    (∀ it ∈ paths, it.1.Nodup ∧ (∀ x ∈ it.1, x ∈ V) ∧ n ≤ it.1.length) → V.length < fuel + n →
    ∃ res, loop nbr len start maxLen fuel paths final = some res
  | _, _, [], final, _, _ => ⟨final, by simp [loop]⟩
  | 0, n, it :: its, _, hp, hf => by
    obtain ⟨hn, hsub, hlen⟩ := hp it (by simp)
    have := List.Nodup.length_le_of_subset hn (fun x hx => hsub x hx)
    omega
  | fuel + 1, n, it :: its, final, hp, hf => by
    simp only [loop]
    refine loop_terminates V hV fuel (n + 1) _ _ ?_ (by omega)
    intro x hx
    rw [List.mem_flatMap] at hx
    obtain ⟨i, hi, hxi⟩ := hx
    obtain ⟨s, hs, hsp, hshape⟩ := mem_nexts_shape hxi
    obtain ⟨hn, hsub, hlen⟩ := hp i hi
    obtain ⟨y, _, hsy⟩ := mem_nbrsOfLast hs
    rw [hshape]
    refine ⟨?_, ?_, by simp; omega⟩
    · rw [List.nodup_append]
      refine ⟨hn, by simp, ?_⟩
      intro a ha b hb'
      simp at hb'; subst hb'
      intro hab; subst hab; exact hsp ha
    · intro z hz
      simp only [List.mem_append, List.mem_singleton] at hz
      rcases hz with hz | hz
      · exact hsub z hz
      · subst hz; exact hV y z hsy

/-- More fuel does not change a result. -/
theorem loop_mono : ∀ (fuel : Nat) (paths : List Item) (final res : List Path),
    loop nbr len start maxLen fuel paths final = some res →
    loop nbr len start maxLen (fuel + 1) paths final = some res
  | _, [], final, res, h => by
    simp only [loop] at h ⊢; exact h
  | 0, _ :: _, _, _, h => by simp [loop] at h
  | fuel + 1, it :: its, final, res, h => by
    simp only [loop] at h
    have := loop_mono fuel _ _ res h
    simp only [loop]
    exact this

theorem loop_mono_add (fuel k : Nat) (paths : List Item) (final res : List Path)
    (h : loop nbr len start maxLen fuel paths final = some res) :
    loop nbr len start maxLen (fuel + k) paths final = some res := by
  induction k with
  | zero => exact h
  | succ k ih => exact loop_mono _ _ _ _ ih

/-- The initial worklist satisfies the invariant when the start lanelet is not its own neighbour. -/
theorem init_good (hself : start ∉ nbr start) :
    ∀ it ∈ initItems nbr len start, Good nbr len start maxLen it := by
  intro it hit
  simp only [initItems, List.mem_map] at hit
  obtain ⟨s, hs, rfl⟩ := hit
  refine ⟨⟨⟨s, [], rfl, hs⟩, trivial, by simp, ?_, ?_⟩, by simp [sumLen]⟩
  · simp only [List.mem_singleton]
    intro h; subst h; exact hself hs
  · intro j hj0 hj
    simp at hj; omega

end

/-! ### networks given as data -/

theorem lookup_mem {g : List Node} {i : Nat} {n : Node} (h : lookup g i = some n) : n ∈ g :=
  List.mem_of_find?_eq_some h

theorem closed_succ {g : List Node} {start : Nat} (hc : closedNet g start = true) :
    ∀ v s, s ∈ succOf g v → s ∈ ids g := by
  intro v s hs
  unfold succOf at hs
  cases hl : lookup g v with
  | none => simp [hl] at hs
  | some n =>
    simp only [hl] at hs
    simp only [closedNet, Bool.and_eq_true, List.all_eq_true, decide_eq_true_eq] at hc
    exact (hc.2 n (lookup_mem hl)).1 s hs

theorem closed_pred {g : List Node} {start : Nat} (hc : closedNet g start = true) :
    ∀ v s, s ∈ predOf g v → s ∈ ids g := by
  intro v s hs
  unfold predOf at hs
  cases hl : lookup g v with
  | none => simp [hl] at hs
  | some n =>
    simp only [hl] at hs
    simp only [closedNet, Bool.and_eq_true, List.all_eq_true, decide_eq_true_eq] at hc
    exact (hc.2 n (lookup_mem hl)).2 s hs

end CR.Route
