import CRProofs.Quad
import Mathlib.Tactic.FieldSimp
import Mathlib.Algebra.Order.Field.Basic

/-!
  C06: the exact intersection predicates `segMeet`, `segNear`, `ringsMeet`, `discMeetsRing` of `CR.Geom`:
  symmetry, translation invariance, agreement with point membership in the degenerate cases.
-/
namespace CR.Geom

/-! ### symmetry -/

theorem segMeet_symm (a b c d : Pt) : segMeet a b c d = segMeet c d a b := by
  simp only [segMeet]
  generalize decide (cross a b c * cross a b d < 0) = x1
  generalize decide (cross c d a * cross c d b < 0) = x2
  generalize onSeg a b c = y1
  generalize onSeg a b d = y2
  generalize onSeg c d a = y3
  generalize onSeg c d b = y4
  cases x1 <;> cases x2 <;> cases y1 <;> cases y2 <;> cases y3 <;> cases y4 <;> rfl

theorem any_any_comm {α β} (l : List α) (m : List β) (P : α → β → Bool) :
    l.any (fun x => m.any (fun y => P x y)) = m.any (fun y => l.any (fun x => P x y)) := by
  rw [Bool.eq_iff_iff]
  simp only [List.any_eq_true]
  constructor
  · rintro ⟨x, hx, y, hy, h⟩; exact ⟨y, hy, x, hx, h⟩
  · rintro ⟨y, hy, x, hx, h⟩; exact ⟨x, hx, y, hy, h⟩

theorem ringsMeet_symm (A B : List Pt) : ringsMeet A B = ringsMeet B A := by
  unfold ringsMeet
  rw [any_any_comm (edges A) (edges B)]
  simp only [segMeet_symm]
  generalize (edges B).any (fun y => (edges A).any (fun x => segMeet y.1 y.2 x.1 x.2)) = e
  generalize A.any (fun a => inRing B a) = u
  generalize B.any (fun b => inRing A b) = v
  cases e <;> cases u <;> cases v <;> rfl

/-! ### translation -/

theorem segMeet_add (a b c d t : Pt) : segMeet (a.add t) (b.add t) (c.add t) (d.add t) = segMeet a b c d := by
  simp only [segMeet, cross_add, onSeg_add]

theorem segNear_add (a b p t : Pt) (r2 : Rat) : segNear (a.add t) (b.add t) (p.add t) r2 = segNear a b p r2 := by
  simp only [segNear, d2_add, cross_add]
  simp only [Pt.add, add_sub_add_right_eq_sub]

theorem ringsMeet_add (A B : List Pt) (t : Pt) :
    ringsMeet (A.map (·.add t)) (B.map (·.add t)) = ringsMeet A B := by
  simp only [ringsMeet, edges_map, List.any_map, Function.comp_def, segMeet_add, inRing_add]

theorem discMeetsRing_add (ctr : Pt) (r : Rat) (A : List Pt) (t : Pt) :
    discMeetsRing (ctr.add t) r (A.map (·.add t)) = discMeetsRing ctr r A := by
  simp only [discMeetsRing, edges_map, List.any_map, Function.comp_def, segNear_add, inRing_add]

theorem withinTol_add (tol : Rat) (A : List Pt) (p t : Pt) :
    withinTol tol (A.map (·.add t)) (p.add t) = withinTol tol A p := by
  simp only [withinTol, edges_map, List.any_map, Function.comp_def, segNear_add, inRing_add]

/-! ### degenerate cases -/

theorem onSeg_left (a b : Pt) : onSeg a b a = true := by simp [onSeg, cross]
theorem onSeg_right (a b : Pt) : onSeg a b b = true := by
  simp only [onSeg, Bool.and_eq_true, decide_eq_true_eq]
  exact ⟨⟨⟨⟨by simp only [cross]; ring, min_le_right _ _⟩, le_max_right _ _⟩, min_le_right _ _⟩, le_max_right _ _⟩

theorem eq_of_onSeg_self {a p : Pt} (h : onSeg a a p = true) : p = a := by
  have := (seg_point p a).mp h
  cases p; cases a; simp_all

/-- A segment meets a point (degenerate segment) iff the point lies on it. -/
theorem segMeet_point (a b p : Pt) : segMeet a b p p = onSeg a b p := by
  simp only [segMeet]
  have h0 : cross p p a = 0 := by simp [cross]
  rw [h0, zero_mul]
  cases h : onSeg a b p
  · have h1 : onSeg p p a = false := by
      cases h1 : onSeg p p a
      · rfl
      · have := eq_of_onSeg_self h1; subst this; rw [onSeg_left] at h; cases h
    have h2 : onSeg p p b = false := by
      cases h2 : onSeg p p b
      · rfl
      · have := eq_of_onSeg_self h2; subst this; rw [onSeg_right] at h; cases h
    simp [h1, h2]
  · simp

/-- Every vertex of a ring starts one of its edges. -/
theorem exists_edge_of_mem {vs : List Pt} {v : Pt} (h : v ∈ vs) : ∃ e ∈ edges vs, e.1 = v := by
  cases vs with
  | nil => cases h
  | cons v0 rest =>
    simp only [edges]
    have key : ∀ (l m : List Pt), l.length ≤ m.length → v ∈ l → ∃ e ∈ l.zip m, e.1 = v := by
      intro l
      induction l with
      | nil => intro m _ hv; cases hv
      | cons x xs ih =>
        intro m hm hv
        cases m with
        | nil => simp at hm
        | cons y ys =>
          rcases List.mem_cons.mp hv with hv | hv
          · exact ⟨(x, y), by simp, hv.symm⟩
          · obtain ⟨e, he, hev⟩ := ih ys (by simpa using hm) hv
            exact ⟨e, by simp [he], hev⟩
    exact key _ _ (by simp) h

/-- A vertex of a ring lies in the ring (on its boundary). -/
theorem inRing_of_mem {vs : List Pt} {v : Pt} (h : v ∈ vs) : inRing vs v = true := by
  obtain ⟨e, he, hev⟩ := exists_edge_of_mem h
  simp only [inRing, Bool.or_eq_true, List.any_eq_true]
  exact Or.inl ⟨e, he, by rw [← hev]; exact onSeg_left _ _⟩

theorem inRing_point (p a : Pt) : inRing [p] a = onSeg p p a := by
  simp [inRing, crossings, edges, rayCross_self]

/-- A polygon meets a point (a ring of one vertex) iff the point lies in the polygon. -/
theorem ringsMeet_point (A : List Pt) (p : Pt) : ringsMeet A [p] = inRing A p := by
  have hp : (A.any fun a => inRing [p] a) = true → inRing A p = true := by
    intro h
    obtain ⟨a, ha, h1⟩ := List.any_eq_true.mp h
    rw [inRing_point] at h1
    have := eq_of_onSeg_self h1
    subst this
    exact inRing_of_mem ha
  have he : ((edges A).any fun e => segMeet e.1 e.2 p p) = true → inRing A p = true := by
    intro h
    simp only [segMeet_point] at h
    simp only [inRing, Bool.or_eq_true]
    exact Or.inl h
  have e1 : edges [p] = [(p, p)] := rfl
  simp only [ringsMeet, e1, List.any_cons, List.any_nil, Bool.or_false]
  cases h : inRing A p
  · cases h1 : (edges A).any fun e => segMeet e.1 e.2 p p
    · cases h2 : A.any fun a => inRing [p] a
      · rfl
      · rw [hp h2] at h; cases h
    · rw [he h1] at h; cases h
  · simp

theorem d2_comm (p q : Pt) : d2 p q = d2 q p := by simp only [d2]; ring

/-- A disc meets a point (a ring of one vertex) iff the point lies in the disc. -/
theorem discMeetsRing_point (ctr : Pt) (r : Rat) (p : Pt) : discMeetsRing ctr r [p] = inDisc ctr r p := by
  have hn : segNear p p ctr (r * r) = decide (d2 p ctr ≤ r * r) := by
    simp [segNear, d2_comm ctr p]
  have e1 : edges [p] = [(p, p)] := rfl
  simp only [discMeetsRing, inDisc, e1, List.any_cons, List.any_nil, Bool.or_false, hn, inRing_point]
  cases h : onSeg p p ctr
  · simp
  · have := eq_of_onSeg_self h
    subst this
    have : d2 ctr ctr ≤ r * r := by simp only [d2, sub_self, mul_zero, add_zero]; exact mul_self_nonneg r
    simp [this]

/-! ### soundness: the predicates only report pairs that share a point -/

theorem lerp_between (x y t : Rat) (h0 : 0 ≤ t) (h1 : t ≤ 1) :
    min x y ≤ x + t * (y - x) ∧ x + t * (y - x) ≤ max x y := by
  rcases le_total x y with h | h
  · rw [min_eq_left h, max_eq_right h]; constructor <;> nlinarith
  · rw [min_eq_right h, max_eq_left h]; constructor <;> nlinarith

theorem onSeg_lerp (a b : Pt) (t : Rat) (h0 : 0 ≤ t) (h1 : t ≤ 1) :
    onSeg a b ⟨a.x + t * (b.x - a.x), a.y + t * (b.y - a.y)⟩ = true := by
  simp only [onSeg, Bool.and_eq_true, decide_eq_true_eq]
  exact ⟨⟨⟨⟨by simp only [cross]; ring, (lerp_between a.x b.x t h0 h1).1⟩, (lerp_between a.x b.x t h0 h1).2⟩,
    (lerp_between a.y b.y t h0 h1).1⟩, (lerp_between a.y b.y t h0 h1).2⟩

theorem ratio_of_opposite {x y : Rat} (h : x * y < 0) : x - y ≠ 0 ∧ 0 ≤ x / (x - y) ∧ x / (x - y) ≤ 1 := by
  rcases mul_neg_iff.mp h with ⟨hx, hy⟩ | ⟨hx, hy⟩
  · have hd : 0 < x - y := by linarith
    exact ⟨hd.ne', div_nonneg hx.le hd.le, (div_le_one hd).mpr (by linarith)⟩
  · have hd : x - y < 0 := by linarith
    refine ⟨hd.ne, div_nonneg_of_nonpos hx.le hd.le, ?_⟩
    rw [div_le_one_of_neg hd]; linarith

/-- If `segMeet` holds the two closed segments have a common point. -/
theorem segMeet_sound (a b c d : Pt) (h : segMeet a b c d = true) :
    ∃ q, onSeg a b q = true ∧ onSeg c d q = true := by
  simp only [segMeet, Bool.or_eq_true, Bool.and_eq_true, decide_eq_true_eq] at h
  rcases h with (((⟨h12, h34⟩ | h) | h) | h) | h
  · obtain ⟨n34, t0, t1⟩ := ratio_of_opposite h34
    obtain ⟨n12, u0, u1⟩ := ratio_of_opposite h12
    refine ⟨⟨a.x + cross c d a / (cross c d a - cross c d b) * (b.x - a.x),
             a.y + cross c d a / (cross c d a - cross c d b) * (b.y - a.y)⟩, onSeg_lerp a b _ t0 t1, ?_⟩
    have hq : (⟨a.x + cross c d a / (cross c d a - cross c d b) * (b.x - a.x),
                a.y + cross c d a / (cross c d a - cross c d b) * (b.y - a.y)⟩ : Pt) =
        ⟨c.x + cross a b c / (cross a b c - cross a b d) * (d.x - c.x),
         c.y + cross a b c / (cross a b c - cross a b d) * (d.y - c.y)⟩ := by
      simp only [cross] at n34 n12 ⊢
      simp only [Pt.mk.injEq]
      constructor <;> (field_simp; ring)
    rw [hq]
    exact onSeg_lerp c d _ u0 u1
  · exact ⟨c, h, onSeg_left c d⟩
  · exact ⟨d, h, onSeg_right c d⟩
  · exact ⟨a, onSeg_left a b, h⟩
  · exact ⟨b, onSeg_right a b, h⟩

theorem inRing_of_onSeg {vs : List Pt} {e : Pt × Pt} {q : Pt} (he : e ∈ edges vs) (h : onSeg e.1 e.2 q = true) :
    inRing vs q = true := by
  simp only [inRing, Bool.or_eq_true, List.any_eq_true]
  exact Or.inl ⟨e, he, h⟩

/-- If `ringsMeet A B` holds there is a point that lies in both closed polygons. -/
theorem ringsMeet_sound (A B : List Pt) (h : ringsMeet A B = true) :
    ∃ q, inRing A q = true ∧ inRing B q = true := by
  simp only [ringsMeet, Bool.or_eq_true, List.any_eq_true] at h
  rcases h with (⟨e, he, f, hf, hm⟩ | ⟨a, ha, hb⟩) | ⟨b, hb, ha⟩
  · obtain ⟨q, h1, h2⟩ := segMeet_sound _ _ _ _ hm
    exact ⟨q, inRing_of_onSeg he h1, inRing_of_onSeg hf h2⟩
  · exact ⟨a, inRing_of_mem ha, hb⟩
  · exact ⟨b, ha, inRing_of_mem hb⟩

theorem foot_identity (ex ey dx dy τ : Rat) (hτ : τ * (dx * dx + dy * dy) = ex * dx + ey * dy) :
    ((τ * dx - ex) * (τ * dx - ex) + (τ * dy - ey) * (τ * dy - ey)) * (dx * dx + dy * dy)
      = (dx * ey - dy * ex) * (dx * ey - dy * ex) := by
  linear_combination (τ * (dx * dx + dy * dy) - (ex * dx + ey * dy)) * hτ

/-- If `segNear a b p r2` holds, some point of the closed segment is within squared distance `r2` of `p`. -/
theorem segNear_sound (a b p : Pt) (r2 : Rat) (h : segNear a b p r2 = true) :
    ∃ q, onSeg a b q = true ∧ d2 q p ≤ r2 := by
  simp only [segNear] at h
  split at h
  · exact ⟨a, onSeg_left a b, by rw [d2_comm]; simpa using h⟩
  · split at h
    · exact ⟨b, onSeg_right a b, by rw [d2_comm]; simpa using h⟩
    · rename_i h1 h2
      have ht : 0 < (p.x - a.x) * (b.x - a.x) + (p.y - a.y) * (b.y - a.y) := not_le.mp h1
      have hn : (p.x - a.x) * (b.x - a.x) + (p.y - a.y) * (b.y - a.y) <
          (b.x - a.x) * (b.x - a.x) + (b.y - a.y) * (b.y - a.y) := not_le.mp h2
      have hn0 : 0 < (b.x - a.x) * (b.x - a.x) + (b.y - a.y) * (b.y - a.y) := lt_trans ht hn
      have hc : cross a b p * cross a b p ≤ r2 * ((b.x - a.x) * (b.x - a.x) + (b.y - a.y) * (b.y - a.y)) := by
        simpa using h
      refine ⟨⟨a.x + ((p.x - a.x) * (b.x - a.x) + (p.y - a.y) * (b.y - a.y)) /
                  ((b.x - a.x) * (b.x - a.x) + (b.y - a.y) * (b.y - a.y)) * (b.x - a.x),
               a.y + ((p.x - a.x) * (b.x - a.x) + (p.y - a.y) * (b.y - a.y)) /
                  ((b.x - a.x) * (b.x - a.x) + (b.y - a.y) * (b.y - a.y)) * (b.y - a.y)⟩,
        onSeg_lerp a b _ (div_nonneg ht.le hn0.le) ((div_le_one hn0).mpr hn.le), ?_⟩
      have hid : d2 ⟨a.x + ((p.x - a.x) * (b.x - a.x) + (p.y - a.y) * (b.y - a.y)) /
                  ((b.x - a.x) * (b.x - a.x) + (b.y - a.y) * (b.y - a.y)) * (b.x - a.x),
               a.y + ((p.x - a.x) * (b.x - a.x) + (p.y - a.y) * (b.y - a.y)) /
                  ((b.x - a.x) * (b.x - a.x) + (b.y - a.y) * (b.y - a.y)) * (b.y - a.y)⟩ p *
            ((b.x - a.x) * (b.x - a.x) + (b.y - a.y) * (b.y - a.y)) = cross a b p * cross a b p := by
        have := foot_identity (p.x - a.x) (p.y - a.y) (b.x - a.x) (b.y - a.y) _ (div_mul_cancel₀ _ hn0.ne')
        simp only [d2, cross]
        linear_combination this
      exact le_of_mul_le_mul_right (by rw [hid]; exact hc) hn0

theorem eq_of_d2_le_zero {q p : Pt} (h : d2 q p ≤ 0) : q = p := by
  simp only [d2] at h
  have hx : (q.x - p.x) * (q.x - p.x) = 0 := by nlinarith [mul_self_nonneg (q.x - p.x), mul_self_nonneg (q.y - p.y)]
  have hy : (q.y - p.y) * (q.y - p.y) = 0 := by nlinarith [mul_self_nonneg (q.x - p.x), mul_self_nonneg (q.y - p.y)]
  have h1 : q.x = p.x := by have := mul_self_eq_zero.mp hx; linarith
  have h2 : q.y = p.y := by have := mul_self_eq_zero.mp hy; linarith
  cases q; cases p; simp_all

/-- If `withinTol tol A p` holds, some point of the closed polygon is within `tol` of `p` (squared). -/
theorem withinTol_sound (tol : Rat) (A : List Pt) (p : Pt) (h : withinTol tol A p = true) :
    ∃ q, inRing A q = true ∧ d2 q p ≤ tol * tol := by
  simp only [withinTol, Bool.or_eq_true, List.any_eq_true] at h
  rcases h with h | ⟨e, he, hn⟩
  · exact ⟨p, h, by simp only [d2, sub_self, mul_zero, add_zero]; exact mul_self_nonneg tol⟩
  · obtain ⟨q, hq, hd⟩ := segNear_sound _ _ _ _ hn
    exact ⟨q, inRing_of_onSeg he hq, hd⟩

/-- Tolerance 0: `dwithin(·, 0)` is point membership. -/
theorem withinTol_zero (A : List Pt) (p : Pt) : withinTol 0 A p = inRing A p := by
  cases h : inRing A p
  · cases h' : withinTol 0 A p
    · rfl
    · obtain ⟨q, hq, hd⟩ := withinTol_sound 0 A p h'
      rw [zero_mul] at hd
      rw [eq_of_d2_le_zero hd] at hq
      rw [hq] at h; cases h
  · simp [withinTol, h]

/-- If `discMeetsRing` holds, some point lies in the closed polygon and in the closed disc. -/
theorem discMeetsRing_sound (ctr : Pt) (r : Rat) (A : List Pt) (h : discMeetsRing ctr r A = true) :
    ∃ q, inRing A q = true ∧ inDisc ctr r q = true := by
  simp only [discMeetsRing, Bool.and_eq_true, decide_eq_true_eq] at h
  obtain ⟨hr, h⟩ := h
  have := withinTol_sound r A ctr (by simpa [withinTol] using h)
  obtain ⟨q, hq, hd⟩ := this
  exact ⟨q, hq, by simp only [inDisc, Bool.and_eq_true, decide_eq_true_eq]; exact ⟨hr, hd⟩⟩

/-- Radius 0: a disc that is a point meets the polygon iff the point lies in it. -/
theorem discMeetsRing_zero (ctr : Pt) (A : List Pt) : discMeetsRing ctr 0 A = inRing A ctr := by
  have := withinTol_zero A ctr
  simp only [withinTol] at this
  simp only [discMeetsRing, le_refl, decide_true, Bool.true_and]
  exact this

/-! ### exactness of `segMeet` -/

/-- A point of the closed segment is `a + u·(b - a)` with `0 ≤ u ≤ 1`. -/
theorem onSeg_param (a b q : Pt) (h : onSeg a b q = true) :
    ∃ u : Rat, 0 ≤ u ∧ u ≤ 1 ∧ q.x = a.x + u * (b.x - a.x) ∧ q.y = a.y + u * (b.y - a.y) := by
  simp only [onSeg, Bool.and_eq_true, decide_eq_true_eq] at h
  obtain ⟨⟨⟨⟨hc, h1⟩, h2⟩, h3⟩, h4⟩ := h
  simp only [cross] at hc
  by_cases hx : b.x = a.x
  · by_cases hy : b.y = a.y
    · refine ⟨0, le_refl _, zero_le_one, ?_, ?_⟩
      · rw [hx, min_self] at h1; rw [hx, max_self] at h2; linarith
      · rw [hy, min_self] at h3; rw [hy, max_self] at h4; linarith
    · have hqx : q.x = a.x := by
        rw [hx, sub_self, zero_mul, zero_sub, neg_eq_zero] at hc
        rcases mul_eq_zero.mp hc with h' | h'
        · exact absurd (sub_eq_zero.mp h') hy
        · linarith
      have hd : b.y - a.y ≠ 0 := sub_ne_zero.mpr hy
      refine ⟨(q.y - a.y) / (b.y - a.y), ?_, ?_, by rw [hx, sub_self, mul_zero, add_zero]; exact hqx, by field_simp; ring⟩
      · rcases lt_or_gt_of_ne hy with hlt | hgt
        · rw [min_eq_right hlt.le] at h3; rw [max_eq_left hlt.le] at h4
          exact div_nonneg_of_nonpos (by linarith) (by linarith)
        · rw [min_eq_left hgt.le] at h3
          exact div_nonneg (by linarith) (by linarith)
      · rcases lt_or_gt_of_ne hy with hlt | hgt
        · rw [min_eq_right hlt.le] at h3
          rw [div_le_one_of_neg (by linarith)]; linarith
        · rw [max_eq_right hgt.le] at h4
          rw [div_le_one (by linarith)]; linarith
  · have hd : b.x - a.x ≠ 0 := sub_ne_zero.mpr hx
    refine ⟨(q.x - a.x) / (b.x - a.x), ?_, ?_, by field_simp; ring, ?_⟩
    · rcases lt_or_gt_of_ne hx with hlt | hgt
      · rw [min_eq_right hlt.le] at h1
        exact div_nonneg_of_nonpos (by linarith [max_eq_left hlt.le ▸ h2]) (by linarith)
      · rw [min_eq_left hgt.le] at h1
        exact div_nonneg (by linarith) (by linarith)
    · rcases lt_or_gt_of_ne hx with hlt | hgt
      · rw [min_eq_right hlt.le] at h1
        rw [div_le_one_of_neg (by linarith)]; linarith
      · rw [max_eq_right hgt.le] at h2
        rw [div_le_one (by linarith)]; linarith
    · field_simp
      linarith

/-- A point of line `ab` (`a ≠ b`) whose projection parameter lies in `[0, n]` is on the segment. -/
theorem onSeg_of_proj (a b c : Pt) (hn : 0 < (b.x - a.x) * (b.x - a.x) + (b.y - a.y) * (b.y - a.y))
    (hc : cross a b c = 0)
    (h0 : 0 ≤ (c.x - a.x) * (b.x - a.x) + (c.y - a.y) * (b.y - a.y))
    (h1 : (c.x - a.x) * (b.x - a.x) + (c.y - a.y) * (b.y - a.y) ≤ (b.x - a.x) * (b.x - a.x) + (b.y - a.y) * (b.y - a.y)) :
    onSeg a b c = true := by
  simp only [cross] at hc
  obtain ⟨σ, hσ⟩ : ∃ σ, σ = ((c.x - a.x) * (b.x - a.x) + (c.y - a.y) * (b.y - a.y)) /
      ((b.x - a.x) * (b.x - a.x) + (b.y - a.y) * (b.y - a.y)) := ⟨_, rfl⟩
  have hσn : σ * ((b.x - a.x) * (b.x - a.x) + (b.y - a.y) * (b.y - a.y)) =
      (c.x - a.x) * (b.x - a.x) + (c.y - a.y) * (b.y - a.y) := by rw [hσ]; exact div_mul_cancel₀ _ hn.ne'
  have hx : c.x = a.x + σ * (b.x - a.x) := by
    have : (c.x - a.x - σ * (b.x - a.x)) * ((b.x - a.x) * (b.x - a.x) + (b.y - a.y) * (b.y - a.y)) = 0 := by
      linear_combination (-(b.y - a.y)) * hc - (b.x - a.x) * hσn
    rcases mul_eq_zero.mp this with h | h
    · linarith
    · exact absurd h hn.ne'
  have hy : c.y = a.y + σ * (b.y - a.y) := by
    have : (c.y - a.y - σ * (b.y - a.y)) * ((b.x - a.x) * (b.x - a.x) + (b.y - a.y) * (b.y - a.y)) = 0 := by
      linear_combination (b.x - a.x) * hc - (b.y - a.y) * hσn
    rcases mul_eq_zero.mp this with h | h
    · linarith
    · exact absurd h hn.ne'
  have hc' : c = ⟨a.x + σ * (b.x - a.x), a.y + σ * (b.y - a.y)⟩ := by
    rcases c with ⟨cx, cy⟩; simp only [Pt.mk.injEq]; exact ⟨hx, hy⟩
  rw [hc']
  exact onSeg_lerp a b σ (by rw [hσ]; exact div_nonneg h0 hn.le) (by rw [hσ]; exact (div_le_one hn).mpr h1)

/-- A point of line `ab` (`a ≠ b`) is `a + σ·(b - a)`. -/
theorem line_param (a b c : Pt) (hn : 0 < (b.x - a.x) * (b.x - a.x) + (b.y - a.y) * (b.y - a.y))
    (hc : cross a b c = 0) : ∃ σ : Rat, c.x = a.x + σ * (b.x - a.x) ∧ c.y = a.y + σ * (b.y - a.y) := by
  simp only [cross] at hc
  obtain ⟨σ, hσ⟩ : ∃ σ, σ = ((c.x - a.x) * (b.x - a.x) + (c.y - a.y) * (b.y - a.y)) /
      ((b.x - a.x) * (b.x - a.x) + (b.y - a.y) * (b.y - a.y)) := ⟨_, rfl⟩
  have hσn : σ * ((b.x - a.x) * (b.x - a.x) + (b.y - a.y) * (b.y - a.y)) =
      (c.x - a.x) * (b.x - a.x) + (c.y - a.y) * (b.y - a.y) := by rw [hσ]; exact div_mul_cancel₀ _ hn.ne'
  refine ⟨σ, ?_, ?_⟩
  · have : (c.x - a.x - σ * (b.x - a.x)) * ((b.x - a.x) * (b.x - a.x) + (b.y - a.y) * (b.y - a.y)) = 0 := by
      linear_combination (-(b.y - a.y)) * hc - (b.x - a.x) * hσn
    rcases mul_eq_zero.mp this with h | h
    · linarith
    · exact absurd h hn.ne'
  · have : (c.y - a.y - σ * (b.y - a.y)) * ((b.x - a.x) * (b.x - a.x) + (b.y - a.y) * (b.y - a.y)) = 0 := by
      linear_combination (b.x - a.x) * hc - (b.y - a.y) * hσn
    rcases mul_eq_zero.mp this with h | h
    · linarith
    · exact absurd h hn.ne'

theorem onSeg_of_param (a b c : Pt) (σ : Rat) (h0 : 0 ≤ σ) (h1 : σ ≤ 1) (hx : c.x = a.x + σ * (b.x - a.x))
    (hy : c.y = a.y + σ * (b.y - a.y)) : onSeg a b c = true := by
  have hc' : c = ⟨a.x + σ * (b.x - a.x), a.y + σ * (b.y - a.y)⟩ := by
    rcases c with ⟨cx, cy⟩; simp only [Pt.mk.injEq]; exact ⟨hx, hy⟩
  rw [hc']; exact onSeg_lerp a b σ h0 h1

/-- Two segments on one line that share a point: an end point of one lies on the other. -/
theorem collinear_overlap (a b c d q : Pt) (hq1 : onSeg a b q = true) (hq2 : onSeg c d q = true)
    (h1 : cross a b c = 0) (h2 : cross a b d = 0) :
    onSeg a b c = true ∨ onSeg a b d = true ∨ onSeg c d a = true ∨ onSeg c d b = true := by
  obtain ⟨t, t0, t1, qx1, qy1⟩ := onSeg_param a b q hq1
  obtain ⟨u, u0, u1, qx2, qy2⟩ := onSeg_param c d q hq2
  by_cases hn : 0 < (b.x - a.x) * (b.x - a.x) + (b.y - a.y) * (b.y - a.y)
  · obtain ⟨σc, cx, cy⟩ := line_param a b c hn h1
    obtain ⟨σd, dx, dy⟩ := line_param a b d hn h2
    have ht : t = σc + u * (σd - σc) := by
      have ex : (t - (σc + u * (σd - σc))) * (b.x - a.x) = 0 := by
        rw [qx2, cx, dx] at qx1; linear_combination -qx1
      have ey : (t - (σc + u * (σd - σc))) * (b.y - a.y) = 0 := by
        rw [qy2, cy, dy] at qy1; linear_combination -qy1
      have : (t - (σc + u * (σd - σc))) * ((b.x - a.x) * (b.x - a.x) + (b.y - a.y) * (b.y - a.y)) = 0 := by
        linear_combination (b.x - a.x) * ex + (b.y - a.y) * ey
      rcases mul_eq_zero.mp this with h | h
      · linarith
      · exact absurd h hn.ne'
    have hb := lerp_between σc σd u u0 u1
    rw [← ht] at hb
    rcases le_total σc σd with hcd | hcd
    · rw [min_eq_left hcd, max_eq_right hcd] at hb
      by_cases h0 : 0 ≤ σc
      · exact Or.inl (onSeg_of_param a b c σc h0 (by linarith) cx cy)
      · have hpos : 0 < σd - σc := by linarith
        refine Or.inr (Or.inr (Or.inl (onSeg_of_param c d a (-σc / (σd - σc)) (div_nonneg (by linarith) hpos.le)
          ((div_le_one hpos).mpr (by linarith)) ?_ ?_)))
        · rw [cx, dx]; field_simp; ring
        · rw [cy, dy]; field_simp; ring
    · rw [min_eq_right hcd, max_eq_left hcd] at hb
      by_cases h0 : 0 ≤ σd
      · exact Or.inr (Or.inl (onSeg_of_param a b d σd h0 (by linarith) dx dy))
      · have hpos : 0 < σc - σd := by linarith
        refine Or.inr (Or.inr (Or.inl (onSeg_of_param c d a (σc / (σc - σd)) (div_nonneg (by linarith) hpos.le)
          ((div_le_one hpos).mpr (by linarith)) ?_ ?_)))
        · rw [cx, dx]; field_simp; ring
        · rw [cy, dy]; field_simp; ring
  · -- a = b
    have hx : b.x - a.x = 0 := by nlinarith [mul_self_nonneg (b.x - a.x), mul_self_nonneg (b.y - a.y)]
    have hy : b.y - a.y = 0 := by nlinarith [mul_self_nonneg (b.x - a.x), mul_self_nonneg (b.y - a.y)]
    rw [hx, mul_zero, add_zero] at qx1
    rw [hy, mul_zero, add_zero] at qy1
    have : q = a := by rcases q with ⟨x, y⟩; rcases a with ⟨ax, ay⟩; simp only [Pt.mk.injEq]; exact ⟨qx1, qy1⟩
    rw [this] at hq2
    exact Or.inr (Or.inr (Or.inl hq2))

theorem affine_zero {d1 d2 u : Rat} (u0 : 0 ≤ u) (u1 : u ≤ 1) (hf : (1 - u) * d1 + u * d2 = 0) :
    d1 * d2 < 0 ∨ (u = 0 ∧ d1 = 0) ∨ (u = 1 ∧ d2 = 0) ∨ (d1 = 0 ∧ d2 = 0) := by
  by_cases h1 : d1 = 0
  · subst h1
    rw [mul_zero, zero_add] at hf
    rcases mul_eq_zero.mp hf with h | h
    · exact Or.inr (Or.inl ⟨h, rfl⟩)
    · exact Or.inr (Or.inr (Or.inr ⟨rfl, h⟩))
  by_cases h2 : d2 = 0
  · subst h2
    rw [mul_zero, add_zero] at hf
    rcases mul_eq_zero.mp hf with h | h
    · exact Or.inr (Or.inr (Or.inl ⟨by linarith, rfl⟩))
    · exact absurd h h1
  left
  by_contra hc
  have hc' : 0 ≤ d1 * d2 := not_lt.mp hc
  have hu : 0 < u := by
    rcases lt_or_eq_of_le u0 with h | h
    · exact h
    · exfalso; rw [← h] at hf; simp at hf; exact h1 hf
  have hd : 0 < d2 * d2 := mul_self_pos.mpr h2
  have e : (1 - u) * (d1 * d2) + u * (d2 * d2) = 0 := by linear_combination d2 * hf
  nlinarith [mul_nonneg (by linarith : (0:Rat) ≤ 1 - u) hc', mul_pos hu hd]

theorem eq_of_coords {q c : Pt} (hx : q.x = c.x) (hy : q.y = c.y) : q = c := by
  rcases q with ⟨x, y⟩; rcases c with ⟨cx, cy⟩; simp only [Pt.mk.injEq]; exact ⟨hx, hy⟩

/-- Completeness of `segMeet`: two closed segments that share a point satisfy it. -/
theorem segMeet_complete (a b c d q : Pt) (hq1 : onSeg a b q = true) (hq2 : onSeg c d q = true) :
    segMeet a b c d = true := by
  obtain ⟨t, t0, t1, qx1, qy1⟩ := onSeg_param a b q hq1
  obtain ⟨u, u0, u1, qx2, qy2⟩ := onSeg_param c d q hq2
  have hf : (1 - u) * cross a b c + u * cross a b d = 0 := by
    have e1 : (b.x - a.x) * (q.y - a.y) - (b.y - a.y) * (q.x - a.x) = 0 := by rw [qx1, qy1]; ring
    rw [qx2, qy2] at e1
    simp only [cross]; linear_combination e1
  have hg : (1 - t) * cross c d a + t * cross c d b = 0 := by
    have e1 : (d.x - c.x) * (q.y - c.y) - (d.y - c.y) * (q.x - c.x) = 0 := by rw [qx2, qy2]; ring
    rw [qx1, qy1] at e1
    simp only [cross]; linear_combination e1
  simp only [segMeet, Bool.or_eq_true, Bool.and_eq_true, decide_eq_true_eq]
  have fromOverlap : (onSeg a b c = true ∨ onSeg a b d = true ∨ onSeg c d a = true ∨ onSeg c d b = true) →
      ((((cross a b c * cross a b d < 0 ∧ cross c d a * cross c d b < 0) ∨ onSeg a b c = true) ∨ onSeg a b d = true) ∨
        onSeg c d a = true) ∨ onSeg c d b = true := by
    rintro (h | h | h | h)
    · exact Or.inl (Or.inl (Or.inl (Or.inr h)))
    · exact Or.inl (Or.inl (Or.inr h))
    · exact Or.inl (Or.inr h)
    · exact Or.inr h
  rcases affine_zero u0 u1 hf with p1 | ⟨hu, _⟩ | ⟨hu, _⟩ | ⟨z1, z2⟩
  · rcases affine_zero t0 t1 hg with p2 | ⟨ht, _⟩ | ⟨ht, _⟩ | ⟨z3, z4⟩
    · exact Or.inl (Or.inl (Or.inl (Or.inl ⟨p1, p2⟩)))
    · have : q = a := eq_of_coords (by rw [qx1, ht]; ring) (by rw [qy1, ht]; ring)
      rw [this] at hq2; exact fromOverlap (Or.inr (Or.inr (Or.inl hq2)))
    · have : q = b := eq_of_coords (by rw [qx1, ht]; ring) (by rw [qy1, ht]; ring)
      rw [this] at hq2; exact fromOverlap (Or.inr (Or.inr (Or.inr hq2)))
    · rcases collinear_overlap c d a b q hq2 hq1 z3 z4 with h | h | h | h
      · exact fromOverlap (Or.inr (Or.inr (Or.inl h)))
      · exact fromOverlap (Or.inr (Or.inr (Or.inr h)))
      · exact fromOverlap (Or.inl h)
      · exact fromOverlap (Or.inr (Or.inl h))
  · have : q = c := eq_of_coords (by rw [qx2, hu]; ring) (by rw [qy2, hu]; ring)
    rw [this] at hq1; exact fromOverlap (Or.inl hq1)
  · have : q = d := eq_of_coords (by rw [qx2, hu]; ring) (by rw [qy2, hu]; ring)
    rw [this] at hq1; exact fromOverlap (Or.inr (Or.inl hq1))
  · exact fromOverlap (collinear_overlap a b c d q hq1 hq2 z1 z2)

/-- `segMeet` is exact: it holds iff the two closed segments have a common point. -/
theorem segMeet_iff (a b c d : Pt) : segMeet a b c d = true ↔ ∃ q, onSeg a b q = true ∧ onSeg c d q = true :=
  ⟨segMeet_sound a b c d, fun ⟨q, h1, h2⟩ => segMeet_complete a b c d q h1 h2⟩


/-! ### exactness of `segNear` -/

theorem lagrange (ex ey dx dy : Rat) :
    (dx * ey - dy * ex) * (dx * ey - dy * ex) =
      (ex * ex + ey * ey) * (dx * dx + dy * dy) - (ex * dx + ey * dy) * (ex * dx + ey * dy) := by ring

/-- Completeness of `segNear`: if some point `a + σ·(b - a)`, `0 ≤ σ ≤ 1`, is within squared distance `r2` of `p`. -/
theorem segNear_complete_param (a b p : Pt) (r2 σ : Rat) (s0 : 0 ≤ σ) (s1 : σ ≤ 1)
    (h : d2 ⟨a.x + σ * (b.x - a.x), a.y + σ * (b.y - a.y)⟩ p ≤ r2) : segNear a b p r2 = true := by
  simp only [d2] at h
  obtain ⟨dx, hdx⟩ : ∃ dx, dx = b.x - a.x := ⟨_, rfl⟩
  obtain ⟨dy, hdy⟩ : ∃ dy, dy = b.y - a.y := ⟨_, rfl⟩
  obtain ⟨ex, hex⟩ : ∃ ex, ex = p.x - a.x := ⟨_, rfl⟩
  obtain ⟨ey, hey⟩ : ∃ ey, ey = p.y - a.y := ⟨_, rfl⟩
  have hq : (σ * dx - ex) * (σ * dx - ex) + (σ * dy - ey) * (σ * dy - ey) ≤ r2 := by
    rw [hdx, hdy, hex, hey]; linarith
  have hn : 0 ≤ dx * dx + dy * dy := by nlinarith [mul_self_nonneg dx, mul_self_nonneg dy]
  simp only [segNear, ← hdx, ← hdy, ← hex, ← hey]
  split
  · rename_i ht
    simp only [decide_eq_true_eq, d2, ← hex, ← hey]
    nlinarith [mul_nonneg (mul_nonneg s0 s0) hn, mul_nonneg s0 (neg_nonneg.mpr ht)]
  · split
    · rename_i _ hnt
      have e1 : p.x - b.x = ex - dx := by rw [hex, hdx]; ring
      have e2 : p.y - b.y = ey - dy := by rw [hey, hdy]; ring
      simp only [decide_eq_true_eq, d2, e1, e2]
      nlinarith [mul_nonneg (by linarith : (0:Rat) ≤ 1 - σ) (by nlinarith : (0:Rat) ≤ 2 * (ex * dx + ey * dy) - (dx * dx + dy * dy) * (σ + 1))]
    · rename_i ht hnt
      have hc : cross a b p = dx * ey - dy * ex := by simp only [cross, hdx, hdy, hex, hey]
      simp only [decide_eq_true_eq, hc, lagrange]
      have hn0 : 0 < dx * dx + dy * dy := by linarith [not_le.mp ht, not_le.mp hnt]
      nlinarith [mul_self_nonneg ((dx * dx + dy * dy) * σ - (ex * dx + ey * dy)), mul_le_mul_of_nonneg_right hq hn0.le]

theorem segNear_complete (a b p q : Pt) (r2 : Rat) (hq : onSeg a b q = true) (h : d2 q p ≤ r2) : segNear a b p r2 = true := by
  obtain ⟨σ, s0, s1, qx, qy⟩ := onSeg_param a b q hq
  have : q = ⟨a.x + σ * (b.x - a.x), a.y + σ * (b.y - a.y)⟩ := by
    rcases q with ⟨x, y⟩; simp only [Pt.mk.injEq]; exact ⟨qx, qy⟩
  rw [this] at h
  exact segNear_complete_param a b p r2 σ s0 s1 h


/-- `segNear` is exact: it holds iff some point of the closed segment is within squared distance `r2` of `p`. -/
theorem segNear_iff (a b p : Pt) (r2 : Rat) :
    segNear a b p r2 = true ↔ ∃ q, onSeg a b q = true ∧ d2 q p ≤ r2 :=
  ⟨segNear_sound a b p r2, fun ⟨q, h1, h2⟩ => segNear_complete a b p q r2 h1 h2⟩

/-- `ringsMeet` says: the boundaries share a point, or a vertex of one polygon lies in the other. -/
theorem ringsMeet_iff (A B : List Pt) : ringsMeet A B = true ↔
    (∃ e ∈ edges A, ∃ f ∈ edges B, ∃ q, onSeg e.1 e.2 q = true ∧ onSeg f.1 f.2 q = true) ∨
    (∃ a ∈ A, inRing B a = true) ∨ (∃ b ∈ B, inRing A b = true) := by
  simp only [ringsMeet, Bool.or_eq_true, List.any_eq_true, segMeet_iff, or_assoc]

/-- `discMeetsRing` says: the radius is non-negative and the centre lies in the polygon or a boundary point is within
    `r` of the centre. -/
theorem discMeetsRing_iff (ctr : Pt) (r : Rat) (A : List Pt) : discMeetsRing ctr r A = true ↔
    0 ≤ r ∧ (inRing A ctr = true ∨ ∃ e ∈ edges A, ∃ q, onSeg e.1 e.2 q = true ∧ d2 q ctr ≤ r * r) := by
  simp only [discMeetsRing, Bool.and_eq_true, Bool.or_eq_true, List.any_eq_true, segNear_iff, decide_eq_true_eq]

theorem withinTol_iff (tol : Rat) (A : List Pt) (p : Pt) : withinTol tol A p = true ↔
    (inRing A p = true ∨ ∃ e ∈ edges A, ∃ q, onSeg e.1 e.2 q = true ∧ d2 q p ≤ tol * tol) := by
  simp only [withinTol, Bool.or_eq_true, List.any_eq_true, segNear_iff]

/-! ### the envelope prefilter of the tree never removes a true hit -/

theorem inBBox_iff (vs : List Pt) (p : Pt) : inBBox vs p = true ↔
    (∃ a ∈ vs, a.x ≤ p.x) ∧ (∃ a ∈ vs, p.x ≤ a.x) ∧ (∃ a ∈ vs, a.y ≤ p.y) ∧ (∃ a ∈ vs, p.y ≤ a.y) := by
  simp only [inBBox, Bool.and_eq_true, List.any_eq_true, decide_eq_true_eq, and_assoc]

/-- Two vertex lists whose bounding boxes share a point have overlapping envelopes. -/
theorem envOverlap_of_common {A B : List Pt} {q : Pt} (ha : inBBox A q = true) (hb : inBBox B q = true) :
    envOverlap A B = true := by
  obtain ⟨⟨a1, ha1, h1⟩, ⟨a2, ha2, h2⟩, ⟨a3, ha3, h3⟩, ⟨a4, ha4, h4⟩⟩ := (inBBox_iff A q).mp ha
  obtain ⟨⟨b1, hb1, k1⟩, ⟨b2, hb2, k2⟩, ⟨b3, hb3, k3⟩, ⟨b4, hb4, k4⟩⟩ := (inBBox_iff B q).mp hb
  simp only [envOverlap, Bool.and_eq_true, List.any_eq_true, decide_eq_true_eq]
  exact ⟨⟨⟨⟨a1, ha1, b2, hb2, le_trans h1 k2⟩, ⟨b1, hb1, a2, ha2, le_trans k1 h2⟩⟩,
    ⟨a3, ha3, b4, hb4, le_trans h3 k4⟩⟩, ⟨b3, hb3, a4, ha4, le_trans k3 h4⟩⟩

/-- `bbox_sound` for two polygons: if they meet, their bounding boxes overlap. -/
theorem envOverlap_of_ringsMeet {A B : List Pt} (h : ringsMeet A B = true) : envOverlap A B = true := by
  obtain ⟨q, h1, h2⟩ := ringsMeet_sound A B h
  exact envOverlap_of_common (inBBox_of_inRing h1) (inBBox_of_inRing h2)

theorem abs_coord_le {dx dy ρ : Rat} (hρ : 0 ≤ ρ) (h : dx * dx + dy * dy ≤ ρ * ρ) : -ρ ≤ dx ∧ dx ≤ ρ := by
  constructor
  · by_contra hc; nlinarith [mul_self_nonneg dy, not_le.mp hc]
  · by_contra hc; nlinarith [mul_self_nonneg dy, not_le.mp hc]

/-- `bbox_sound` for a disc / a point with a tolerance: a polygon point within `ρ` of the centre puts the
    polygon's bounding box within the square of half side `ρ`. -/
theorem discEnv_of_near {A : List Pt} {q ctr : Pt} {ρ : Rat} (hρ : 0 ≤ ρ) (hq : inBBox A q = true)
    (hd : d2 q ctr ≤ ρ * ρ) : discEnvOverlap ctr ρ A = true := by
  obtain ⟨⟨a1, ha1, h1⟩, ⟨a2, ha2, h2⟩, ⟨a3, ha3, h3⟩, ⟨a4, ha4, h4⟩⟩ := (inBBox_iff A q).mp hq
  simp only [d2] at hd
  have hx := abs_coord_le hρ hd
  have hy := abs_coord_le (dx := q.y - ctr.y) (dy := q.x - ctr.x) hρ (by linarith)
  simp only [discEnvOverlap, Bool.and_eq_true, List.any_eq_true, decide_eq_true_eq]
  exact ⟨⟨⟨⟨a1, ha1, by linarith⟩, ⟨a2, ha2, by linarith⟩⟩, ⟨a3, ha3, by linarith⟩⟩, ⟨a4, ha4, by linarith⟩⟩

/-- The envelope test of the tree is implied by the exact predicate, so the two-stage evaluation of
    `find_lanelet_by_shape` (tree query, then `intersects`) is the exact predicate alone. -/
theorem treeMeets_eq (A : List Pt) (s : Prim) : treeMeets A s = ringMeets A s := by
  unfold treeMeets
  cases h : ringMeets A s
  · simp
  · have : primEnvOverlap A s = true := by
      cases s with
      | rect l w ctr c s => exact envOverlap_of_ringsMeet h
      | poly vs => exact envOverlap_of_ringsMeet h
      | circ r ctr =>
        simp only [ringMeets] at h
        have hr : 0 ≤ exportedRadius r := by
          simp only [discMeetsRing, Bool.and_eq_true, decide_eq_true_eq] at h; exact h.1
        obtain ⟨q, hq, hd⟩ := discMeetsRing_sound ctr _ A h
        simp only [inDisc, Bool.and_eq_true, decide_eq_true_eq] at hd
        exact discEnv_of_near hr (inBBox_of_inRing hq) hd.2
    simp [this]

/-- The same for `find_lanelet_by_position` (`dwithin` with a non-negative tolerance). -/
theorem treeWithin_eq (tol : Rat) (htol : 0 ≤ tol) (A : List Pt) (p : Pt) : treeWithin tol A p = withinTol tol A p := by
  unfold treeWithin
  cases h : withinTol tol A p
  · simp
  · obtain ⟨q, hq, hd⟩ := withinTol_sound tol A p h
    simp [discEnv_of_near htol (inBBox_of_inRing hq) hd]

/-- A point of the polygon is within every tolerance of it. -/
theorem withinTol_of_inRing (tol : Rat) (A : List Pt) (p : Pt) (h : inRing A p = true) : withinTol tol A p = true := by
  simp [withinTol, h]

end CR.Geom
