/-
  CRProofs.XsdDocC — C03 whole-document validity, part C: lanelets, traffic signs, traffic lights, intersections
  (independent of parts B and D: lake builds the three in parallel).
-/
import CRProofs.XsdDocH
import CRProofs.XsdEnumT
import CRProofs.XsdEnumS

namespace CR.C03
open CR.Xsd CR.XmlNum CR.XmlW

/-! ### lanelets -/

theorem pt_bound : PlainType "bound" := by unfold PlainType; decide

theorem boundMarking_ok {lm : String} (h : memberOf CR.Py.Gen.lineMarking lm) :
    ∀ v, boundMarking lm = some v → acceptsV "lineMarking" v = true := by
  intro v hv
  unfold boundMarking at hv
  split at hv
  · cases hv
  · cases hv; exact ok_lineMarking h

theorem valid_bound (p : Nat) (tag : String) {pts : List Pt} {lm : String} (h2 : 2 ≤ pts.length) (hp : PtsOk pts)
    (hlm : memberOf CR.Py.Gen.lineMarking lm) :
    validNode schema "bound" (boundNode p tag pts lm) = true := by
  have he : elemsOf (schema.content "bound") =
      [{ name := "point", type := "point", min := 2, max := none },
       { name := "lineMarking", type := "lineMarking", min := 0, max := some 1 }] := by decide
  have hf : FamsOk schema (elemsOf (schema.content "bound")) [pts.map (ptNode p "point"), optLeaf "lineMarking" (boundMarking lm)] := by
    rw [he]
    exact ⟨fam_map (fun q hq => ⟨rfl, valid_pt p "point" (hp q hq)⟩), ir_ge _ _ 2 (by simpa using h2),
           fam_optLeaf _ _ (boundMarking_ok hlm), ir_opt _ _ 1 (len_optLeaf _ _), trivial⟩
  have := seq_assembly pt_bound (by decide) tag [] (by rfl) _ hf (by
    cases pts with
    | nil => simp at h2
    | cons _ _ => simp)
  simpa [boundNode, el] using this

theorem pt_stopLine : PlainType "stopLine" := by unfold PlainType; decide

theorem valid_stopLine (p : Nat) {s : StopLineD} (h : StopOk s) : validNode schema "stopLine" (stopLineNode p s) = true := by
  obtain ⟨hpts, v, hv, hacc⟩ := h
  have he : elemsOf (schema.content "stopLine") =
      [{ name := "point", type := "point", min := 0, max := some 2 },
       { name := "lineMarking", type := "lineMarking", min := 1, max := some 1 },
       { name := "trafficSignRef", type := "trafficSignRef", min := 0, max := none },
       { name := "trafficLightRef", type := "trafficLightRef", min := 0, max := none }] := by decide
  have hf : FamsOk schema (elemsOf (schema.content "stopLine"))
      [stopPtNodes p s.pts,
       optLeaf "lineMarking" (s.marking.map lineMarkingLower), s.signs.map (refNode "trafficSignRef"),
       s.lights.map (refNode "trafficLightRef")] := by
    rw [he, hv]
    refine ⟨?_, ?_, fam_one rfl (leaf_enum _ _ _ (ok_lineMarkingLower hacc)), ir_one _ _, fam_refs lk_signRef _ _, ir_any _ _ _,
            fam_refs lk_lightRef _ _, ir_any _ _ _, trivial⟩
    · cases hq : s.pts with
      | none => exact fam_nil
      | some ab =>
        obtain ⟨a, b⟩ := ab
        have := hpts a b hq
        intro x hx
        simp [stopPtNodes] at hx
        rcases hx with rfl | rfl
        · exact ⟨rfl, valid_pt p "point" this.1⟩
        · exact ⟨rfl, valid_pt p "point" this.2⟩
    · cases hq : s.pts with
      | none => exact ir_opt _ _ 2 (by simp [stopPtNodes])
      | some ab => obtain ⟨a, b⟩ := ab; exact ir_opt _ _ 2 (by simp [stopPtNodes])
  have := seq_assembly pt_stopLine (by decide) "stopLine" [] (by rfl) _ hf (by rw [hv]; simp [optLeaf])
  simpa [stopLineNode, el, List.append_assoc] using this

def adjDecl : List AttrP :=
  [{ name := "ref", type := "xs:integer", required := true }, { name := "drivingDir", type := "drivingDir", required := true }]

theorem lk_adj : schema.lookup "laneletAdjacentRef" = some (.complex adjDecl false .empty) := by decide

theorem simple_dd : simpleOf schema "drivingDir" = some { base := .string, enum := ["same", "opposite"] } := by decide

theorem fam_adj (tag : String) (o : Option (Int × Bool)) :
    ∀ x ∈ adjNode tag o, x.name = tag ∧ validNode schema "laneletAdjacentRef" x = true := by
  cases o with
  | none => exact fam_nil
  | some t =>
    obtain ⟨i, same⟩ := t
    refine fam_one rfl ?_
    have hm : matchGroup .empty (([] : List Xml).map Xml.name) = some [] := by decide
    have ha : attrsOk schema adjDecl [("ref", String.ofList (intStr i)), ("drivingDir", if same then "same" else "opposite")] = true := by
      cases same <;> simp [attrsOk, adjDecl, simple_int, simple_dd, String.toList_ofList, integer_accepts i] <;> decide
    rw [validNode_complex lk_adj ha hm]; rfl

theorem len_adj (tag : String) (o : Option (Int × Bool)) : (adjNode tag o).length ≤ 1 := by
  cases o with
  | none => simp [adjNode]
  | some t => obtain ⟨i, s⟩ := t; simp [adjNode]

theorem it_lanelet : IdType "lanelet" := by unfold IdType; decide

theorem unknown_laneletType : memberOf CR.Py.Gen.laneletType "UNKNOWN" := by decide

theorem valid_lanelet (p : Nat) {l : LaneletD} (h : LaneletOk l) : validNode schema "lanelet" (laneletNode p l) = true := by
  obtain ⟨hid, hl2, hlp, hr2, hrp, hlml, hlmr, hstop, hty, how, hbi⟩ := h
  have he : elemsOf (schema.content "lanelet") =
      [{ name := "leftBound", type := "bound", min := 1, max := some 1 },
       { name := "rightBound", type := "bound", min := 1, max := some 1 },
       { name := "predecessor", type := "laneletRef", min := 0, max := none },
       { name := "successor", type := "laneletRef", min := 0, max := none },
       { name := "adjacentLeft", type := "laneletAdjacentRef", min := 0, max := some 1 },
       { name := "adjacentRight", type := "laneletAdjacentRef", min := 0, max := some 1 },
       { name := "stopLine", type := "stopLine", min := 0, max := some 1 },
       { name := "laneletType", type := "laneletType", min := 1, max := none },
       { name := "userOneWay", type := "vehicleType", min := 0, max := none },
       { name := "userBidirectional", type := "vehicleType", min := 0, max := none },
       { name := "trafficSignRef", type := "trafficSignRef", min := 0, max := none },
       { name := "trafficLightRef", type := "trafficLightRef", min := 0, max := none }] := by decide
  have htypes : ∀ v ∈ typesWritten l.types, acceptsV "laneletType" v = true := by
    intro v hv
    unfold typesWritten at hv
    obtain ⟨n, hn, rfl⟩ := List.mem_map.mp hv
    split at hn
    · simp at hn; subst hn; exact ok_laneletType unknown_laneletType
    · exact ok_laneletType (hty n hn)
  have how' : ∀ v ∈ l.oneWay.map (enumValue CR.Py.Gen.roadUser), acceptsV "vehicleType" v = true := by
    intro v hv; obtain ⟨n, hn, rfl⟩ := List.mem_map.mp hv; exact ok_roadUser (how n hn)
  have hbi' : ∀ v ∈ l.bidir.map (enumValue CR.Py.Gen.roadUser), acceptsV "vehicleType" v = true := by
    intro v hv; obtain ⟨n, hn, rfl⟩ := List.mem_map.mp hv; exact ok_roadUser (hbi n hn)
  have hf : FamsOk schema (elemsOf (schema.content "lanelet"))
      [[boundNode p "leftBound" l.left l.lmLeft], [boundNode p "rightBound" l.right l.lmRight],
       l.pred.map (refNode "predecessor"), l.succ.map (refNode "successor"), adjNode "adjacentLeft" l.adjL,
       adjNode "adjacentRight" l.adjR, optStopNodes p l.stop,
       (typesWritten l.types).map (fun v => leaf "laneletType" v.toList),
       (l.oneWay.map (enumValue CR.Py.Gen.roadUser)).map (fun v => leaf "userOneWay" v.toList),
       (l.bidir.map (enumValue CR.Py.Gen.roadUser)).map (fun v => leaf "userBidirectional" v.toList),
       l.signs.map (refNode "trafficSignRef"), l.lights.map (refNode "trafficLightRef")] := by
    rw [he]
    refine ⟨fam_one rfl (valid_bound p _ hl2 hlp hlml), ir_one _ _, fam_one rfl (valid_bound p _ hr2 hrp hlmr), ir_one _ _,
            fam_refs lk_laneletRef _ _, ir_any _ _ _, fam_refs lk_laneletRef _ _, ir_any _ _ _,
            fam_adj _ _, ir_opt _ _ 1 (len_adj _ _), fam_adj _ _, ir_opt _ _ 1 (len_adj _ _), ?_, ?_,
            fam_enum _ _ htypes, ir_ge _ _ 1 ?_, fam_enum _ _ how', ir_any _ _ _, fam_enum _ _ hbi', ir_any _ _ _,
            fam_refs lk_signRef _ _, ir_any _ _ _, fam_refs lk_lightRef _ _, ir_any _ _ _, trivial⟩
    · cases hs : l.stop with
      | none => exact fam_nil
      | some s => exact fam_one rfl (valid_stopLine p (hstop s hs))
    · cases l.stop <;> exact ir_opt _ _ 1 (by simp [optStopNodes])
    · unfold typesWritten
      split
      · simp
      · rename_i hne
        cases ht : l.types with
        | nil => rw [ht] at hne; simp at hne
        | cons _ _ => simp
  have := seq_assembly it_lanelet (by decide) "lanelet" (idAttr l.id) (attrs_id hid) _ hf (by simp)
  simpa [laneletNode, List.append_assoc] using this

/-! ### traffic signs -/

theorem pt_signElement : PlainType "trafficSign/trafficSignElement" := by unfold PlainType; decide
theorem it_sign : IdType "trafficSign" := by unfold IdType; decide

theorem valid_signElement {e : String × String × List String} (h : SignElemOk e) :
    validNode schema "trafficSign/trafficSignElement" (signElementNode e) = true := by
  have he : elemsOf (schema.content "trafficSign/trafficSignElement") =
      [{ name := "trafficSignID", type := "trafficSignID", min := 1, max := some 1 },
       { name := "additionalValue", type := "xs:string", min := 0, max := none }] := by decide
  have hf : FamsOk schema (elemsOf (schema.content "trafficSign/trafficSignElement"))
      [[leaf "trafficSignID" (signValue e.1 e.2.1).toList], e.2.2.map (fun v => leaf "additionalValue" v.toList)] := by
    rw [he]
    exact ⟨fam_one rfl (leaf_enum _ _ _ (ok_sign h)), ir_one _ _, fam_map (fun v _ => ⟨rfl, leaf_string _ _⟩), ir_any _ _ _, trivial⟩
  have := seq_assembly pt_signElement (by decide) "trafficSignElement" [] (by rfl) _ hf (by simp)
  simpa [signElementNode, el] using this

theorem valid_sign (p : Nat) {s : SignD} (h : SignOk s) : validNode schema "trafficSign" (signNode p s) = true := by
  obtain ⟨hid, hne, hel, hpos⟩ := h
  have he : elemsOf (schema.content "trafficSign") =
      [{ name := "trafficSignElement", type := "trafficSign/trafficSignElement", min := 1, max := none },
       { name := "position", type := "positionExact", min := 0, max := some 1 },
       { name := "virtual", type := "xs:boolean", min := 0, max := none }] := by decide
  have hf : FamsOk schema (elemsOf (schema.content "trafficSign"))
      [s.elements.map signElementNode, optPosNodes p s.pos, optB "virtual" s.virtual] := by
    rw [he]
    refine ⟨fam_map (fun e he' => ⟨rfl, valid_signElement (hel e he')⟩), ir_ge _ _ 1 ?_, ?_, ?_, fam_optB _ _, ir_any _ _ _, trivial⟩
    · cases hs : s.elements with
      | nil => exact absurd hs hne
      | cons _ _ => simp
    · cases hq : s.pos with
      | none => exact fam_nil
      | some q => exact fam_one rfl (valid_pos_exact p (hpos q hq))
    · cases s.pos <;> exact ir_opt _ _ 1 (by simp [optPosNodes])
  have := seq_assembly it_sign (by decide) "trafficSign" (idAttr s.id) (attrs_id hid) _ hf (by
    cases hs : s.elements with
    | nil => exact absurd hs hne
    | cons _ _ => simp)
  simpa [signNode, List.append_assoc] using this

/-! ### traffic lights -/

theorem pt_cycleElement : PlainType "trafficCycleElement" := by unfold PlainType; decide
theorem pt_cycle : PlainType "trafficLightCycle" := by unfold PlainType; decide
theorem it_light : IdType "trafficLight" := by unfold IdType; decide

theorem valid_cycleElement {e : Int × String} (h1 : 1 ≤ e.1) (h2 : memberOf CR.Py.Gen.trafficLightState e.2) :
    validNode schema "trafficCycleElement" (cycleElementNode e) = true := by
  have hm : matchGroup (schema.content "trafficCycleElement") ["duration", "color"] = some ["xs:positiveInteger", "trafficLightColor"] := by
    decide
  rw [cycleElementNode, el_valid pt_cycleElement (ts := ["xs:positiveInteger", "trafficLightColor"]) (by simpa [leaf, Xml.name] using hm)]
  simp only [validKids, leaf_posint _ h1, leaf_enum _ _ _ (ok_lightState h2), Bool.and_self]

theorem fam_offset (o : Option Int) : ∀ x ∈ offsetNodes o, x.name = "timeOffset" ∧ validNode schema "xs:positiveInteger" x = true := by
  cases o with
  | none => exact fam_nil
  | some v =>
    simp only [offsetNodes]
    split
    · rename_i hv; exact fam_one rfl (leaf_posint _ (by omega))
    · exact fam_nil

theorem len_offset (o : Option Int) : (offsetNodes o).length ≤ 1 := by
  cases o with
  | none => simp [offsetNodes]
  | some v => simp only [offsetNodes]; split <;> simp

theorem valid_cycle {es : List (Int × String)} (off : Option Int) (hne : es ≠ [])
    (h : ∀ e ∈ es, 1 ≤ e.1 ∧ memberOf CR.Py.Gen.trafficLightState e.2) :
    validNode schema "trafficLightCycle" (cycleNode es off) = true := by
  have he : elemsOf (schema.content "trafficLightCycle") =
      [{ name := "cycleElement", type := "trafficCycleElement", min := 1, max := none },
       { name := "timeOffset", type := "xs:positiveInteger", min := 0, max := some 1 }] := by decide
  have hf : FamsOk schema (elemsOf (schema.content "trafficLightCycle"))
      [es.map cycleElementNode, offsetNodes off] := by
    rw [he]
    refine ⟨fam_map (fun e he' => ⟨rfl, valid_cycleElement (h e he').1 (h e he').2⟩), ir_ge _ _ 1 ?_, fam_offset _,
            ir_opt _ _ 1 (len_offset _), trivial⟩
    cases es with
    | nil => exact absurd rfl hne
    | cons _ _ => simp
  have := seq_assembly pt_cycle (by decide) "cycle" [] (by rfl) _ hf (by
    cases es with
    | nil => exact absurd rfl hne
    | cons _ _ => simp)
  simpa [cycleNode, el] using this

theorem valid_light (p : Nat) {l : LightD} (h : LightOk l) : validNode schema "trafficLight" (lightNode p l) = true := by
  obtain ⟨hid, ⟨es, off, hc, hne, hes⟩, hpos, hdir⟩ := h
  have he : elemsOf (schema.content "trafficLight") =
      [{ name := "cycle", type := "trafficLightCycle", min := 1, max := some 1 },
       { name := "position", type := "positionExact", min := 0, max := some 1 },
       { name := "direction", type := "trafficLight/direction", min := 0, max := some 1 },
       { name := "active", type := "xs:boolean", min := 0, max := some 1 }] := by decide
  have hf : FamsOk schema (elemsOf (schema.content "trafficLight"))
      [[cycleNode es off], optPosNodes p l.pos, optLeaf "direction" (lightDirection l.direction), optB "active" l.active] := by
    rw [he]
    have hdir' : ∀ v, lightDirection l.direction = some v → acceptsV "trafficLight/direction" v = true := by
      intro v hv
      unfold lightDirection at hv
      split at hv
      · cases hv
      · cases hv; exact ok_lightDirection hdir
    refine ⟨fam_one rfl (valid_cycle off hne hes), ir_one _ _, ?_, ?_, fam_optLeaf _ _ hdir', ir_opt _ _ 1 (len_optLeaf _ _),
            fam_optB _ _, ir_opt _ _ 1 (len_optB _ _), trivial⟩
    · cases hq : l.pos with
      | none => exact fam_nil
      | some q => exact fam_one rfl (valid_pos_exact p (hpos q hq))
    · cases l.pos <;> exact ir_opt _ _ 1 (by simp [optPosNodes])
  have := seq_assembly it_light (by decide) "trafficLight" (idAttr l.id) (attrs_id hid) _ hf (by simp)
  simpa [lightNode, hc, optCycleNodes, List.append_assoc] using this

/-! ### intersections -/

theorem it_incoming : IdType "incoming" := by unfold IdType; decide
theorem it_intersection : IdType "intersection" := by unfold IdType; decide
theorem pt_crossing : PlainType "crossing" := by unfold PlainType; decide

theorem valid_incoming {i : IncomingD} (h : IncomingOk i) : validNode schema "incoming" (incomingNode i) = true := by
  have he : elemsOf (schema.content "incoming") =
      [{ name := "incomingLanelet", type := "laneletRef", min := 1, max := none },
       { name := "successorsRight", type := "laneletRef", min := 0, max := none },
       { name := "successorsStraight", type := "laneletRef", min := 0, max := none },
       { name := "successorsLeft", type := "laneletRef", min := 0, max := none },
       { name := "isLeftOf", type := "incomingRef", min := 0, max := some 1 }] := by decide
  have hf : FamsOk schema (elemsOf (schema.content "incoming"))
      [i.lanelets.map (refNode "incomingLanelet"), i.right.map (refNode "successorsRight"),
       i.straight.map (refNode "successorsStraight"), i.left.map (refNode "successorsLeft"),
       optRefNodes "isLeftOf" i.leftOf] := by
    rw [he]
    refine ⟨fam_refs lk_laneletRef _ _, ir_ge _ _ 1 ?_, fam_refs lk_laneletRef _ _, ir_any _ _ _, fam_refs lk_laneletRef _ _,
            ir_any _ _ _, fam_refs lk_laneletRef _ _, ir_any _ _ _, ?_, ?_, trivial⟩
    · cases hl : i.lanelets with
      | nil => exact absurd hl h.2
      | cons _ _ => simp
    · cases i.leftOf with
      | none => exact fam_nil
      | some j => exact fam_one rfl (valid_ref lk_incomingRef _ j)
    · cases i.leftOf <;> exact ir_opt _ _ 1 (by simp [optRefNodes])
  have := seq_assembly it_incoming (by decide) "incoming" (idAttr i.id) (attrs_id h.1) _ hf (by
    cases hl : i.lanelets with
    | nil => exact absurd hl h.2
    | cons _ _ => simp)
  simpa [incomingNode, List.append_assoc] using this

theorem valid_crossing {ids : List Int} (hne : ids ≠ []) :
    validNode schema "crossing" (el "crossing" (ids.map (refNode "crossingLanelet"))) = true :=
  one_family pt_crossing (by decide) { name := "crossingLanelet", type := "laneletRef", min := 1, max := none } (by decide) rfl
    "crossing" _ (by cases ids with | nil => exact absurd rfl hne | cons _ _ => simp) (map_ne_nil _ hne)
    (fam_refs lk_laneletRef _ _)

theorem valid_intersection {x : IntersectionD} (h : IntersectionOk x) :
    validNode schema "intersection" (intersectionNode x) = true := by
  obtain ⟨hid, hne, hin⟩ := h
  have he : elemsOf (schema.content "intersection") =
      [{ name := "incoming", type := "incoming", min := 1, max := none },
       { name := "crossing", type := "crossing", min := 0, max := none }] := by decide
  have hf : FamsOk schema (elemsOf (schema.content "intersection"))
      [x.incomings.map incomingNode, crossingNodes x.crossings] := by
    rw [he]
    refine ⟨fam_map (fun i hi => ⟨rfl, valid_incoming (hin i hi)⟩), ir_ge _ _ 1 ?_, ?_, ir_any _ _ _, trivial⟩
    · cases hl : x.incomings with
      | nil => exact absurd hl hne
      | cons _ _ => simp
    · unfold crossingNodes
      split
      · exact fam_nil
      · rename_i hc
        exact fam_one rfl (valid_crossing (by intro h0; rw [h0] at hc; simp at hc))
  have := seq_assembly it_intersection (by decide) "intersection" (idAttr x.id) (attrs_id hid) _ hf (by
    cases hl : x.incomings with
    | nil => exact absurd hl hne
    | cons _ _ => simp)
  simpa [intersectionNode, List.append_assoc] using this

end CR.C03
