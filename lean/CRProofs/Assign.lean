/-
  CRProofs.Assign — helper lemmas for C07: the registration loops of CRModel/Assign.lean characterised by membership.
-/
import CRModel.Assign
import Mathlib.Tactic.Tauto

namespace CR.Assign

/-- `x` is listed on lanelet `l` at time step `t` (key present and `x` in the set). -/
def memD (r : DReg) (l : Id) (t : T) (x : Id) : Prop := ∃ s, r l t = some s ∧ x ∈ s

/-- lanelet `l` is in the set stored under key `t` of a prediction dict -/
def itemsMem (d : Dict) (t : T) (l : Id) : Prop := ∃ ids, (t, ids) ∈ d ∧ l ∈ ids

theorem itemsMem_cons {ta : T} {idsa : List Id} {d : Dict} {t : T} {l : Id} :
    itemsMem ((ta, idsa) :: d) t l ↔ (t = ta ∧ l ∈ idsa) ∨ itemsMem d t l := by
  simp only [itemsMem, List.mem_cons, Prod.mk.injEq]
  constructor
  · rintro ⟨ids, (⟨rfl, rfl⟩ | hm), hl⟩
    · exact Or.inl ⟨rfl, hl⟩
    · exact Or.inr ⟨ids, hm, hl⟩
  · rintro (⟨rfl, hl⟩ | ⟨ids, hm, hl⟩)
    · exact ⟨idsa, Or.inl ⟨rfl, rfl⟩, hl⟩
    · exact ⟨ids, Or.inr hm, hl⟩

/-! ### single updates -/

theorem mem_setAdd {o x : Id} {s : List Id} : (x ∈ if o ∈ s then s else o :: s) ↔ x ∈ s ∨ x = o := by
  by_cases h : o ∈ s
  · rw [if_pos h]
    constructor
    · exact Or.inl
    · rintro (h1 | rfl); exact h1; exact h
  · rw [if_neg h, List.mem_cons]
    constructor
    · rintro (h1 | h1); exact Or.inr h1; exact Or.inl h1
    · rintro (h1 | h1); exact Or.inr h1; exact Or.inl h1

theorem nodup_setAdd {o : Id} {s : List Id} (h : s.Nodup) : (if o ∈ s then s else o :: s).Nodup := by
  by_cases ho : o ∈ s
  · rw [if_pos ho]; exact h
  · rw [if_neg ho]; exact List.nodup_cons.mpr ⟨ho, h⟩

theorem mem_sAdd {r : SReg} {l o l' x : Id} : x ∈ sAdd r l o l' ↔ x ∈ r l' ∨ (x = o ∧ l' = l) := by
  unfold sAdd
  by_cases h : l' = l
  · subst h; simp only [if_true, mem_setAdd, and_true]
  · simp [h]

theorem mem_sDel {r : SReg} {l o l' x : Id} : x ∈ sDel r l o l' ↔ x ∈ r l' ∧ ¬(x = o ∧ l' = l) := by
  unfold sDel
  by_cases h : l' = l <;> simp [h]

theorem memD_dAdd {r : DReg} {l o l' x : Id} {t t' : T} :
    memD (dAdd r l t o) l' t' x ↔ memD r l' t' x ∨ (x = o ∧ l' = l ∧ t' = t) := by
  unfold memD dAdd
  by_cases h : l' = l ∧ t' = t
  · simp only [h, and_self, if_true, Option.some.injEq, exists_eq_left', and_true]
    obtain ⟨rfl, rfl⟩ := h
    cases hr : r l' t' with
    | none => simp
    | some s => simp only [Option.getD_some, mem_setAdd, Option.some.injEq, exists_eq_left']
  · simp only [h, if_false, and_false, or_false]

theorem memD_dDel {r : DReg} {l o l' x : Id} {t t' : T} :
    memD (dDel r l t o) l' t' x ↔ memD r l' t' x ∧ ¬(x = o ∧ l' = l ∧ t' = t) := by
  unfold memD dDel
  by_cases h : l' = l ∧ t' = t
  · simp only [h, and_self, if_true, and_true]
    obtain ⟨rfl, rfl⟩ := h
    cases hr : r l' t' with
    | none => simp
    | some s => simp
  · simp only [h, if_false, and_false, not_false_eq_true, and_true]

theorem isSome_dDel {r : DReg} {l o l' : Id} {t t' : T} : (dDel r l t o l' t').isSome = (r l' t').isSome := by
  unfold dDel
  by_cases h : l' = l ∧ t' = t <;> simp [h]

theorem isSome_dAdd {r : DReg} {l o l' : Id} {t t' : T} (h : (r l' t').isSome) : (dAdd r l t o l' t').isSome := by
  unfold dAdd
  by_cases h' : l' = l ∧ t' = t <;> simp [h', h]

/-! ### static registration loops -/

theorem regStatic_spec (E : Env) (o : Id) : ∀ (ids : List Id) (r r' : SReg), regStatic E o ids r = .ok r' →
    (∀ l ∈ ids, l ∈ E.lanelets) ∧ ∀ l x, x ∈ r' l ↔ x ∈ r l ∨ (x = o ∧ l ∈ ids) := by
  intro ids
  induction ids with
  | nil => intro r r' h; simp only [regStatic, Except.ok.injEq] at h; subst h; simp
  | cons a as ih =>
    intro r r' h
    simp only [regStatic] at h
    split at h
    · next ha =>
      obtain ⟨h1, h2⟩ := ih _ _ h
      refine ⟨?_, ?_⟩
      · intro l hl
        rcases List.mem_cons.mp hl with rfl | hl
        · exact ha
        · exact h1 l hl
      · intro l x
        rw [h2, mem_sAdd]
        simp only [List.mem_cons]
        tauto
    · cases h

theorem regStatic_ok (E : Env) (o : Id) : ∀ (ids : List Id) (r : SReg), (∀ l ∈ ids, l ∈ E.lanelets) →
    ∃ r', regStatic E o ids r = .ok r' := by
  intro ids
  induction ids with
  | nil => intro r _; exact ⟨r, rfl⟩
  | cons a as ih =>
    intro r h
    simp only [regStatic, h a (List.mem_cons_self), if_true]
    exact ih _ (fun l hl => h l (List.mem_cons_of_mem _ hl))

theorem unregStatic_spec (E : Env) (o : Id) : ∀ (ids : List Id) (r r' : SReg), unregStatic E o ids r = .ok r' →
    ∀ l x, x ∈ r' l ↔ x ∈ r l ∧ ¬(x = o ∧ l ∈ ids) := by
  intro ids
  induction ids with
  | nil => intro r r' h; simp only [unregStatic, Except.ok.injEq] at h; subst h; simp
  | cons a as ih =>
    intro r r' h l x
    simp only [unregStatic] at h
    split at h
    · split at h
      · rw [ih _ _ h, mem_sDel]
        simp only [List.mem_cons]
        tauto
      · cases h
    · cases h

theorem unregStatic_ok (E : Env) (o : Id) : ∀ (ids : List Id) (r : SReg), ids.Nodup →
    (∀ l ∈ ids, l ∈ E.lanelets ∧ o ∈ r l) → ∃ r', unregStatic E o ids r = .ok r' := by
  intro ids
  induction ids with
  | nil => intro r _ _; exact ⟨r, rfl⟩
  | cons a as ih =>
    intro r hn h
    obtain ⟨ha1, ha2⟩ := h a (List.mem_cons_self)
    simp only [unregStatic, ha1, ha2, if_true]
    rw [List.nodup_cons] at hn
    apply ih _ hn.2
    intro l hl
    refine ⟨(h l (List.mem_cons_of_mem _ hl)).1, ?_⟩
    rw [mem_sDel]
    refine ⟨(h l (List.mem_cons_of_mem _ hl)).2, ?_⟩
    rintro ⟨_, rfl⟩
    exact hn.1 hl

/-! ### dynamic registration loops -/

theorem regDyn_spec (E : Env) (o : Id) (t : T) : ∀ (ids : List Id) (r r' : DReg), regDyn E o t ids r = .ok r' →
    (∀ l ∈ ids, l ∈ E.lanelets) ∧
    ∀ l t' x, memD r' l t' x ↔ memD r l t' x ∨ (x = o ∧ t' = t ∧ l ∈ ids) := by
  intro ids
  induction ids with
  | nil => intro r r' h; simp only [regDyn, Except.ok.injEq] at h; subst h; simp
  | cons a as ih =>
    intro r r' h
    simp only [regDyn] at h
    split at h
    · next ha =>
      obtain ⟨h1, h2⟩ := ih _ _ h
      refine ⟨?_, ?_⟩
      · intro l hl
        rcases List.mem_cons.mp hl with rfl | hl
        · exact ha
        · exact h1 l hl
      · intro l t' x
        rw [h2, memD_dAdd]
        simp only [List.mem_cons]
        tauto
    · cases h

theorem regDyn_ok (E : Env) (o : Id) (t : T) : ∀ (ids : List Id) (r : DReg), (∀ l ∈ ids, l ∈ E.lanelets) →
    ∃ r', regDyn E o t ids r = .ok r' := by
  intro ids
  induction ids with
  | nil => intro r _; exact ⟨r, rfl⟩
  | cons a as ih =>
    intro r h
    simp only [regDyn, h a (List.mem_cons_self), if_true]
    exact ih _ (fun l hl => h l (List.mem_cons_of_mem _ hl))

theorem regDyn_isSome (E : Env) (o : Id) (t : T) : ∀ (ids : List Id) (r r' : DReg), regDyn E o t ids r = .ok r' →
    ∀ l t', (r l t').isSome → (r' l t').isSome := by
  intro ids
  induction ids with
  | nil => intro r r' h; simp only [regDyn, Except.ok.injEq] at h; subst h; simp
  | cons a as ih =>
    intro r r' h l t' hs
    simp only [regDyn] at h
    split at h
    · exact ih _ _ h l t' (isSome_dAdd hs)
    · cases h

theorem unregDyn_spec (E : Env) (o : Id) (t : T) : ∀ (ids : List Id) (r r' : DReg), unregDyn E o t ids r = .ok r' →
    (∀ l t', (r' l t').isSome = (r l t').isSome) ∧
    ∀ l t' x, memD r' l t' x ↔ memD r l t' x ∧ ¬(x = o ∧ t' = t ∧ l ∈ ids) := by
  intro ids
  induction ids with
  | nil => intro r r' h; simp only [unregDyn, Except.ok.injEq] at h; subst h; simp
  | cons a as ih =>
    intro r r' h
    simp only [unregDyn] at h
    split at h
    · split at h
      · obtain ⟨h1, h2⟩ := ih _ _ h
        refine ⟨?_, ?_⟩
        · intro l t'; rw [h1, isSome_dDel]
        · intro l t' x
          rw [h2, memD_dDel]
          simp only [List.mem_cons]
          tauto
      · cases h
    · cases h

theorem unregDyn_ok (E : Env) (o : Id) (t : T) : ∀ (ids : List Id) (r : DReg),
    (∀ l ∈ ids, l ∈ E.lanelets ∧ (r l t).isSome) → ∃ r', unregDyn E o t ids r = .ok r' := by
  intro ids
  induction ids with
  | nil => intro r _; exact ⟨r, rfl⟩
  | cons a as ih =>
    intro r h
    obtain ⟨ha1, ha2⟩ := h a (List.mem_cons_self)
    simp only [unregDyn, ha1, ha2, if_true]
    apply ih
    intro l hl
    refine ⟨(h l (List.mem_cons_of_mem _ hl)).1, ?_⟩
    rw [isSome_dDel]
    exact (h l (List.mem_cons_of_mem _ hl)).2

theorem regItems_spec (E : Env) (o : Id) : ∀ (d : Dict) (r r' : DReg), regItems E o d r = .ok r' →
    (∀ t ids, (t, ids) ∈ d → ∀ l ∈ ids, l ∈ E.lanelets) ∧
    ∀ l t x, memD r' l t x ↔ memD r l t x ∨ (x = o ∧ itemsMem d t l) := by
  intro d
  induction d with
  | nil => intro r r' h; simp only [regItems, Except.ok.injEq] at h; subst h; simp [itemsMem]
  | cons a as ih =>
    obtain ⟨ta, idsa⟩ := a
    intro r r' h
    simp only [regItems, bind, Except.bind] at h
    split at h
    · cases h
    · next r1 h1 =>
      obtain ⟨g1, g2⟩ := regDyn_spec E o ta idsa r r1 h1
      obtain ⟨k1, k2⟩ := ih _ _ h
      refine ⟨?_, ?_⟩
      · intro t ids hm l hl
        rcases List.mem_cons.mp hm with heq | hm
        · cases heq; exact g1 l hl
        · exact k1 t ids hm l hl
      · intro l t x
        rw [k2, g2, itemsMem_cons]
        tauto

theorem regItems_ok (E : Env) (o : Id) : ∀ (d : Dict) (r : DReg),
    (∀ t ids, (t, ids) ∈ d → ∀ l ∈ ids, l ∈ E.lanelets) → ∃ r', regItems E o d r = .ok r' := by
  intro d
  induction d with
  | nil => intro r _; exact ⟨r, rfl⟩
  | cons a as ih =>
    obtain ⟨ta, idsa⟩ := a
    intro r h
    obtain ⟨r1, h1⟩ := regDyn_ok E o ta idsa r (h ta idsa (List.mem_cons_self))
    simp only [regItems, bind, Except.bind, h1]
    exact ih _ (fun t ids hm => h t ids (List.mem_cons_of_mem _ hm))

theorem unregItems_spec (E : Env) (o : Id) : ∀ (d : Dict) (r r' : DReg), unregItems E o d r = .ok r' →
    ∀ l t x, memD r' l t x ↔ memD r l t x ∧ ¬(x = o ∧ itemsMem d t l) := by
  intro d
  induction d with
  | nil => intro r r' h; simp only [unregItems, Except.ok.injEq] at h; subst h; simp [itemsMem]
  | cons a as ih =>
    obtain ⟨ta, idsa⟩ := a
    intro r r' h l t x
    simp only [unregItems, bind, Except.bind] at h
    split at h
    · cases h
    · next r1 h1 =>
      obtain ⟨_, g2⟩ := unregDyn_spec E o ta idsa r r1 h1
      rw [ih _ _ h, g2, itemsMem_cons]
      tauto

theorem unregItems_ok (E : Env) (o : Id) : ∀ (d : Dict) (r : DReg),
    (∀ t ids, (t, ids) ∈ d → ∀ l ∈ ids, l ∈ E.lanelets ∧ (r l t).isSome) → ∃ r', unregItems E o d r = .ok r' := by
  intro d
  induction d with
  | nil => intro r _; exact ⟨r, rfl⟩
  | cons a as ih =>
    obtain ⟨ta, idsa⟩ := a
    intro r h
    obtain ⟨r1, h1⟩ := unregDyn_ok E o ta idsa r (h ta idsa (List.mem_cons_self))
    simp only [unregItems, bind, Except.bind, h1]
    apply ih
    intro t ids hm l hl
    refine ⟨(h t ids (List.mem_cons_of_mem _ hm) l hl).1, ?_⟩
    rw [(unregDyn_spec E o ta idsa r r1 h1).1]
    exact (h t ids (List.mem_cons_of_mem _ hm) l hl).2

/-! ### dicts -/

theorem mem_dictSet_imp : ∀ (d : Dict) (t : T) (v : List Id) (t' : T) (w : List Id),
    (t', w) ∈ dictSet d t v → (t', w) ∈ d ∨ (t' = t ∧ w = v) := by
  intro d
  induction d with
  | nil => intro t v t' w h; simp [dictSet] at h; exact Or.inr h
  | cons a as ih =>
    obtain ⟨k, u⟩ := a
    intro t v t' w h
    simp only [dictSet] at h
    split at h
    · next hk =>
      subst hk
      rcases List.mem_cons.mp h with heq | hm
      · cases heq; exact Or.inr ⟨rfl, rfl⟩
      · exact Or.inl (List.mem_cons_of_mem _ hm)
    · rcases List.mem_cons.mp h with heq | hm
      · exact Or.inl (heq ▸ List.mem_cons_self)
      · rcases ih _ _ _ _ hm with h' | h'
        · exact Or.inl (List.mem_cons_of_mem _ h')
        · exact Or.inr h'

theorem mem_dictSet_self : ∀ (d : Dict) (t : T) (v : List Id), (t, v) ∈ dictSet d t v := by
  intro d
  induction d with
  | nil => intro t v; simp [dictSet]
  | cons a as ih =>
    obtain ⟨k, u⟩ := a
    intro t v
    simp only [dictSet]
    split
    · next hk => subst hk; exact List.mem_cons_self
    · exact List.mem_cons_of_mem _ (ih t v)

theorem mem_dictSet_of_ne : ∀ (d : Dict) (t : T) (v : List Id) (t' : T) (w : List Id),
    (t', w) ∈ d → t' ≠ t → (t', w) ∈ dictSet d t v := by
  intro d
  induction d with
  | nil => intro t v t' w h; cases h
  | cons a as ih =>
    obtain ⟨k, u⟩ := a
    intro t v t' w h hne
    simp only [dictSet]
    rcases List.mem_cons.mp h with heq | hm
    · cases heq
      rw [if_neg hne]
      exact List.mem_cons_self
    · split
      · exact List.mem_cons_of_mem _ hm
      · exact List.mem_cons_of_mem _ (ih _ _ _ _ hm hne)

theorem dictGet_dictSet_self : ∀ (d : Dict) (t : T) (v : List Id), dictGet (dictSet d t v) t = some v := by
  intro d
  induction d with
  | nil => intro t v; simp [dictSet, dictGet]
  | cons a as ih =>
    obtain ⟨k, u⟩ := a
    intro t v
    simp only [dictSet]
    split
    · next hk => simp [dictGet, hk]
    · next hk => simp [dictGet, hk, ih]

theorem dictGet_dictSet_of_ne : ∀ (d : Dict) (t : T) (v : List Id) (t' : T), t' ≠ t →
    dictGet (dictSet d t v) t' = dictGet d t' := by
  intro d
  induction d with
  | nil => intro t v t' h; simp [dictSet, dictGet, Ne.symm h]
  | cons a as ih =>
    obtain ⟨k, u⟩ := a
    intro t v t' h
    simp only [dictSet]
    split
    · next hk => subst hk; simp [dictGet, Ne.symm h]
    · next hk =>
      simp only [dictGet]
      split
      · rfl
      · exact ih _ _ _ h

theorem dictGet_map (f : T → List Id) : ∀ (steps : List T) (t : T), t ∈ steps →
    dictGet (steps.map (fun t => (t, f t))) t = some (f t) := by
  intro steps
  induction steps with
  | nil => intro t h; cases h
  | cons a as ih =>
    intro t h
    simp only [List.map_cons, dictGet]
    split
    · next hk => subst hk; rfl
    · next hk =>
      rcases List.mem_cons.mp h with rfl | h'
      · exact absurd rfl hk
      · exact ih t h'

theorem mem_trange {a : Int} {n : Nat} {t : Int} : t ∈ trange a n ↔ a ≤ t ∧ t ≤ a + (n : Int) := by
  unfold trange
  simp only [List.mem_map, List.mem_range]
  constructor
  · rintro ⟨i, hi, rfl⟩
    constructor <;> omega
  · rintro ⟨h1, h2⟩
    refine ⟨(t - a).toNat, ?_, ?_⟩ <;> omega

/-! ### the invariant -/

/-- The lookups answer with lanelets of the network, each once (a Python `set(...)` of STRtree hits). -/
structure WfEnv (E : Env) : Prop where
  shp_sub : ∀ o t l, l ∈ E.shp o t → l ∈ E.lanelets
  shp_nodup : ∀ o t, (E.shp o t).Nodup
  cen_sub : ∀ o t l, l ∈ E.cen o t → l ∈ E.lanelets
  cen_nodup : ∀ o t, (E.cen o t).Nodup

/-- recorded shape-lanelet relation of a static obstacle: `l ∈ initial_shape_lanelet_ids` -/
def RecShapeS (f : Fwd) (l : Id) : Prop := ∃ ids, f.initShape = some ids ∧ l ∈ ids

/-- recorded shape-lanelet relation of a dynamic obstacle at time step `t`: `initial_shape_lanelet_ids` at the initial time
    step, `prediction.shape_lanelet_assignment[t]` when there is a prediction -/
def RecShapeD (E : Env) (f : Fwd) (o : Id) (t : T) (l : Id) : Prop :=
  (t = E.t0 o ∧ ∃ ids, f.initShape = some ids ∧ l ∈ ids) ∨
  (E.kind o = Kind.dynTraj ∧ ∃ d, f.predShape = some d ∧ itemsMem d t l)

/-- recorded centre-lanelet relation of a static obstacle: `l ∈ initial_center_lanelet_ids` -/
def RecCenS (f : Fwd) (l : Id) : Prop := ∃ ids, f.initCenter = some ids ∧ l ∈ ids

/-- recorded centre-lanelet relation of a dynamic obstacle at time step `t` -/
def RecCenD (E : Env) (f : Fwd) (o : Id) (t : T) (l : Id) : Prop :=
  (t = E.t0 o ∧ ∃ ids, f.initCenter = some ids ∧ l ∈ ids) ∨
  (E.kind o = Kind.dynTraj ∧ ∃ d, f.predCenter = some d ∧ itemsMem d t l)

/-- the shape lookup as far as the code consults it: never for a SetBasedPrediction (whose sets stay `set()`) -/
def effShp (E : Env) (o : Id) (t : T) : List Id := if E.kind o = Kind.dynSet then [] else E.shp o t

theorem mem_effShp {E : Env} {o l : Id} {t : T} : l ∈ effShp E o t ↔ (E.kind o ≠ Kind.dynSet ∧ l ∈ E.shp o t) := by
  unfold effShp
  split
  · next h => simp [h]
  · next h => simp [h]

theorem effShp_of_ne {E : Env} {o : Id} (t : T) (h : E.kind o ≠ Kind.dynSet) : effShp E o t = E.shp o t := by
  unfold effShp; rw [if_neg h]

theorem effShp_nodup {E : Env} (hw : WfEnv E) (o : Id) (t : T) : (effShp E o t).Nodup := by
  unfold effShp; split
  · exact List.nodup_nil
  · exact hw.shp_nodup o t

theorem effShp_sub {E : Env} (hw : WfEnv E) {o l : Id} {t : T} (h : l ∈ effShp E o t) : l ∈ E.lanelets :=
  hw.shp_sub o t l (mem_effShp.mp h).2

/-- the centre lookup as far as the code consults it -/
def effCen (E : Env) (o : Id) (t : T) : List Id := if E.kind o = Kind.dynSet then [] else E.cen o t

theorem effCen_of_ne {E : Env} {o : Id} (t : T) (h : E.kind o ≠ Kind.dynSet) : effCen E o t = E.cen o t := by
  unfold effCen; rw [if_neg h]

/-- every recorded shape set and every recorded centre set is the lookup answer (for a time step of the horizon; `set()` for a
    set-based prediction), and a recorded shape set comes with a recorded centre set -/
structure Coh (E : Env) (f : Fwd) (o : Id) : Prop where
  initCenter : ∀ ids, f.initCenter = some ids → ids = effCen E o (E.t0 o)
  predCenter : ∀ d, f.predCenter = some d → ∀ t ids, (t, ids) ∈ d → ids = E.cen o t ∧ E.t0 o ≤ t ∧ t ≤ E.tf o
  initShape : ∀ ids, f.initShape = some ids → ids = effShp E o (E.t0 o)
  predShape : ∀ d, f.predShape = some d → ∀ t ids, (t, ids) ∈ d → ids = E.shp o t ∧ E.t0 o ≤ t ∧ t ≤ E.tf o
  center : ∀ ids, f.initShape = some ids → f.initCenter.isSome

/-- `P` marks the obstacles already entered into the registries (all of them outside a file read) -/
structure InvOn (P : Id → Prop) (E : Env) (s : St) : Prop where
  coh : ∀ o, Coh E (s.fwd o) o
  kindS : ∀ o, o ∈ s.statics → E.kind o = Kind.static
  kindD : ∀ o, o ∈ s.dynamics → E.kind o ≠ Kind.static
  invS : ∀ l o, o ∈ s.sreg l ↔ (P o ∧ o ∈ s.statics ∧ RecShapeS (s.fwd o) l)
  invD : ∀ l t o, memD s.dreg l t o ↔ (P o ∧ o ∈ s.dynamics ∧ RecShapeD E (s.fwd o) o t l)

def Inv (E : Env) (s : St) : Prop := InvOn (fun _ => True) E s

/-- the part of the invariant that does not mention the registries: every obstacle object carries lookup answers only, and
    the two obstacle dicts of the scenario hold obstacles of their own kind -/
structure Base (E : Env) (s : St) : Prop where
  coh : ∀ o, Coh E (s.fwd o) o
  kindS : ∀ o, o ∈ s.statics → E.kind o = Kind.static
  kindD : ∀ o, o ∈ s.dynamics → E.kind o ≠ Kind.static

theorem InvOn.base {P : Id → Prop} {E : Env} {s : St} (h : InvOn P E s) : Base E s := ⟨h.coh, h.kindS, h.kindD⟩

theorem InvOn.congr {P Q : Id → Prop} {E : Env} {s : St} (h : ∀ x, P x ↔ Q x) (hi : InvOn P E s) : InvOn Q E s :=
  { coh := hi.coh, kindS := hi.kindS, kindD := hi.kindD,
    invS := fun l o => by rw [hi.invS, h],
    invD := fun l t o => by rw [hi.invD, h] }

theorem RecShapeD.not_set {E : Env} {f : Fwd} {o l : Id} {t : T} (hc : Coh E f o) (h : RecShapeD E f o t l) :
    E.kind o ≠ Kind.dynSet := by
  rcases h with ⟨_, ids, h1, h2⟩ | ⟨hk, _⟩
  · rw [hc.initShape ids h1] at h2; exact (mem_effShp.mp h2).1
  · rw [hk]; intro h; cases h

theorem RecShapeS.mem_eff {E : Env} {f : Fwd} {o l : Id} (hc : Coh E f o) (h : RecShapeS f l) :
    l ∈ effShp E o (E.t0 o) := by
  obtain ⟨ids, h1, h2⟩ := h
  rw [← hc.initShape ids h1]; exact h2

theorem RecShapeS.mem_lanelets {E : Env} {f : Fwd} {o l : Id} (hc : Coh E f o) (h : RecShapeS f l) :
    l ∈ E.shp o (E.t0 o) := (mem_effShp.mp (RecShapeS.mem_eff hc h)).2

/-- a recorded pair is a true pair of the lookup, inside the horizon -/
theorem RecShapeD.sound {E : Env} {f : Fwd} {o l : Id} {t : T} (hc : Coh E f o) (h : RecShapeD E f o t l) :
    l ∈ E.shp o t ∧ (t = E.t0 o ∨ (E.kind o = Kind.dynTraj ∧ E.t0 o ≤ t ∧ t ≤ E.tf o)) := by
  rcases h with ⟨rfl, ids, h1, h2⟩ | ⟨hk, d, h1, ids, h2, h3⟩
  · rw [hc.initShape ids h1] at h2; exact ⟨(mem_effShp.mp h2).2, Or.inl rfl⟩
  · obtain ⟨e, h4, h5⟩ := hc.predShape d h1 t ids h2
    rw [← e]; exact ⟨h3, Or.inr ⟨hk, h4, h5⟩⟩

/-! ### `_add_*_obstacle_to_lanelets` -/

theorem bind_ok {α β : Type} {x : Res α} {f : α → Res β} {b : β} :
    (x >>= f) = .ok b ↔ ∃ a, x = .ok a ∧ f a = .ok b := by
  cases x <;> simp [bind, Except.bind]

theorem pure_ok {α : Type} {a b : α} : (pure a : Res α) = .ok b ↔ a = b := by
  simp [pure, Except.pure]

theorem regInit_spec (E : Env) (o : Id) (f : Fwd) (r r' : DReg) (h : regInit E o f r = .ok r') :
    (∀ l t, (r l t).isSome → (r' l t).isSome) ∧
    ∀ l t x, memD r' l t x ↔ memD r l t x ∨ (x = o ∧ t = E.t0 o ∧ ∃ ids, f.initShape = some ids ∧ l ∈ ids) := by
  unfold regInit at h
  split at h
  · next hs => cases h; simp [hs]
  · next ids hs =>
    refine ⟨regDyn_isSome E o _ ids _ _ h, fun l t x => ?_⟩
    rw [(regDyn_spec E o _ ids _ _ h).2]
    simp [hs]

theorem regPred_spec (E : Env) (o : Id) (f : Fwd) (r r' : DReg) (h : regPred E o f r = .ok r') :
    ∀ l t x, memD r' l t x ↔ memD r l t x ∨
      (x = o ∧ E.kind o = Kind.dynTraj ∧ ∃ d, f.predShape = some d ∧ itemsMem d t l) := by
  intro l t x
  unfold regPred at h
  split at h
  · next hk =>
    split at h
    · next hp => cases h; simp [hp]
    · next d hp =>
      rw [(regItems_spec E o d _ _ h).2]
      simp [hk, hp]
  · next hk => cases h; simp [hk]

theorem unregInit_spec (E : Env) (o : Id) (f : Fwd) (r r' : DReg) (h : unregInit E o f r = .ok r') :
    (∀ l t, (r' l t).isSome = (r l t).isSome) ∧
    ∀ l t x, memD r' l t x ↔ memD r l t x ∧ ¬(x = o ∧ t = E.t0 o ∧ ∃ ids, f.initShape = some ids ∧ l ∈ ids) := by
  unfold unregInit at h
  split at h
  · next hs => cases h; simp [hs]
  · next ids hs =>
    obtain ⟨h1, h2⟩ := unregDyn_spec E o _ ids _ _ h
    refine ⟨h1, fun l t x => ?_⟩
    rw [h2]
    simp [hs]

theorem unregPred_spec (E : Env) (o : Id) (f : Fwd) (r r' : DReg) (h : unregPred E o f r = .ok r') :
    ∀ l t x, memD r' l t x ↔ memD r l t x ∧
      ¬(x = o ∧ E.kind o = Kind.dynTraj ∧ ∃ d, f.predShape = some d ∧ itemsMem d t l) := by
  intro l t x
  unfold unregPred at h
  split at h
  · next hk =>
    split at h
    · next hp => cases h; simp [hp]
    · next d hp =>
      rw [unregItems_spec E o d _ _ h]
      simp [hk, hp]
  · next hk => cases h; simp [hk]

theorem addStaticReg_spec (E : Env) (o : Id) (f : Fwd) (r r' : SReg) (h : addStaticReg E o f r = .ok r') :
    ∀ l x, x ∈ r' l ↔ x ∈ r l ∨ (x = o ∧ E.lanelets ≠ [] ∧ RecShapeS f l) := by
  intro l x
  unfold addStaticReg at h
  split at h
  · next hs => cases h; simp [RecShapeS, hs]
  · next ids hs =>
    split at h
    · next hl => cases h; simp [hl]
    · next hl =>
      rw [(regStatic_spec E o ids _ _ h).2]
      simp [RecShapeS, hs, hl]

theorem discardStatic_spec (E : Env) (o : Id) : ∀ (ids : List Id) (r : SReg) (l x : Id),
    x ∈ discardStatic E o ids r l ↔ x ∈ r l ∧ ¬(x = o ∧ l ∈ ids ∧ l ∈ E.lanelets) := by
  intro ids
  induction ids with
  | nil => intro r l x; simp [discardStatic]
  | cons a as ih =>
    intro r l x
    simp only [discardStatic, ih, List.mem_cons]
    by_cases ha : a ∈ E.lanelets
    · simp only [ha, if_true, mem_sDel]
      constructor
      · rintro ⟨⟨h1, h2⟩, h3⟩
        refine ⟨h1, ?_⟩
        rintro ⟨rfl, (rfl | h4), h5⟩
        · exact h2 ⟨rfl, rfl⟩
        · exact h3 ⟨rfl, h4, h5⟩
      · rintro ⟨h1, h2⟩
        exact ⟨⟨h1, fun h3 => h2 ⟨h3.1, Or.inl h3.2, h3.2 ▸ ha⟩⟩, fun h3 => h2 ⟨h3.1, Or.inr h3.2.1, h3.2.2⟩⟩
    · simp only [ha, if_false]
      constructor
      · rintro ⟨h1, h2⟩
        refine ⟨h1, ?_⟩
        rintro ⟨rfl, (rfl | h4), h5⟩
        · exact ha h5
        · exact h2 ⟨rfl, h4, h5⟩
      · rintro ⟨h1, h2⟩
        exact ⟨h1, fun h3 => h2 ⟨h3.1, Or.inr h3.2.1, h3.2.2⟩⟩

theorem removeStaticReg_spec (E : Env) (o : Id) (f : Fwd) (r : SReg) :
    ∀ l x, x ∈ removeStaticReg E o f r l ↔ x ∈ r l ∧ ¬(x = o ∧ l ∈ E.lanelets ∧ (RecShapeS f l ∨ RecCenS f l)) := by
  intro l x
  unfold removeStaticReg
  rw [discardStatic_spec]
  have : l ∈ f.initShape.getD [] ++ f.initCenter.getD [] ↔ (RecShapeS f l ∨ RecCenS f l) := by
    unfold RecShapeS RecCenS
    rw [List.mem_append]
    cases f.initShape <;> cases f.initCenter <;> simp
  rw [this]
  constructor
  · rintro ⟨h1, h2⟩; exact ⟨h1, fun h3 => h2 ⟨h3.1, h3.2.2, h3.2.1⟩⟩
  · rintro ⟨h1, h2⟩; exact ⟨h1, fun h3 => h2 ⟨h3.1, h3.2.2, h3.2.1⟩⟩

theorem discardDyn_spec (E : Env) (o : Id) (t : T) : ∀ (ids : List Id) (r : DReg),
    (∀ l t', (discardDyn E o t ids r l t').isSome = (r l t').isSome) ∧
    ∀ l t' x, memD (discardDyn E o t ids r) l t' x ↔ memD r l t' x ∧ ¬(x = o ∧ t' = t ∧ l ∈ ids ∧ l ∈ E.lanelets) := by
  intro ids
  induction ids with
  | nil => intro r; simp [discardDyn]
  | cons a as ih =>
    intro r
    simp only [discardDyn]
    obtain ⟨k1, k2⟩ := ih (if a ∈ E.lanelets then dDel r a t o else r)
    refine ⟨?_, ?_⟩
    · intro l t'
      rw [k1]
      split
      · exact isSome_dDel
      · rfl
    · intro l t' x
      rw [k2]
      simp only [List.mem_cons]
      by_cases ha : a ∈ E.lanelets
      · simp only [ha, if_true, memD_dDel]
        constructor
        · rintro ⟨⟨h1, h2⟩, h3⟩
          refine ⟨h1, ?_⟩
          rintro ⟨rfl, rfl, (rfl | h4), h5⟩
          · exact h2 ⟨rfl, rfl, rfl⟩
          · exact h3 ⟨rfl, rfl, h4, h5⟩
        · rintro ⟨h1, h2⟩
          exact ⟨⟨h1, fun h3 => h2 ⟨h3.1, h3.2.2, Or.inl h3.2.1, h3.2.1 ▸ ha⟩⟩,
            fun h3 => h2 ⟨h3.1, h3.2.1, Or.inr h3.2.2.1, h3.2.2.2⟩⟩
      · simp only [ha, if_false]
        constructor
        · rintro ⟨h1, h2⟩
          refine ⟨h1, ?_⟩
          rintro ⟨rfl, rfl, (rfl | h4), h5⟩
          · exact ha h5
          · exact h2 ⟨rfl, rfl, h4, h5⟩
        · rintro ⟨h1, h2⟩
          exact ⟨h1, fun h3 => h2 ⟨h3.1, h3.2.1, Or.inr h3.2.2.1, h3.2.2.2⟩⟩

theorem discardItems_spec (E : Env) (o : Id) : ∀ (d : Dict) (r : DReg),
    (∀ l t, (discardItems E o d r l t).isSome = (r l t).isSome) ∧
    ∀ l t x, memD (discardItems E o d r) l t x ↔ memD r l t x ∧ ¬(x = o ∧ l ∈ E.lanelets ∧ itemsMem d t l) := by
  intro d
  induction d with
  | nil => intro r; simp [discardItems, itemsMem]
  | cons a as ih =>
    obtain ⟨ta, idsa⟩ := a
    intro r
    simp only [discardItems]
    obtain ⟨k1, k2⟩ := ih (discardDyn E o ta idsa r)
    obtain ⟨g1, g2⟩ := discardDyn_spec E o ta idsa r
    refine ⟨fun l t => by rw [k1, g1], fun l t x => ?_⟩
    rw [k2, g2, itemsMem_cons]
    constructor
    · rintro ⟨⟨h1, h2⟩, h3⟩
      refine ⟨h1, ?_⟩
      rintro ⟨rfl, h4, (⟨rfl, h5⟩ | h5)⟩
      · exact h2 ⟨rfl, rfl, h5, h4⟩
      · exact h3 ⟨rfl, h4, h5⟩
    · rintro ⟨h1, h2⟩
      exact ⟨⟨h1, fun h3 => h2 ⟨h3.1, h3.2.2.2, Or.inl ⟨h3.2.1, h3.2.2.1⟩⟩⟩, fun h3 => h2 ⟨h3.1, h3.2.1, Or.inr h3.2.2⟩⟩

theorem itemsMem_append_single (d : Dict) (t0 : T) (ic : List Id) (t : T) (l : Id) :
    itemsMem (d ++ [(t0, ic)]) t l ↔ itemsMem d t l ∨ (t = t0 ∧ l ∈ ic) := by
  unfold itemsMem
  simp only [List.mem_append, List.mem_singleton, Prod.mk.injEq]
  constructor
  · rintro ⟨ids, (hm | ⟨rfl, rfl⟩), hl⟩
    · exact Or.inl ⟨ids, hm, hl⟩
    · exact Or.inr ⟨rfl, hl⟩
  · rintro (⟨ids, hm, hl⟩ | ⟨rfl, hl⟩)
    · exact ⟨ids, Or.inl hm, hl⟩
    · exact ⟨ic, Or.inr ⟨rfl, rfl⟩, hl⟩

theorem unregCenter_spec (E : Env) (o : Id) (f : Fwd) (r : DReg) :
    (∀ l t, (unregCenter E o f r l t).isSome = (r l t).isSome) ∧
    ∀ l t x, memD (unregCenter E o f r) l t x ↔ memD r l t x ∧ ¬(x = o ∧ l ∈ E.lanelets ∧ RecCenD E f o t l) := by
  unfold unregCenter
  obtain ⟨k1, k2⟩ := discardItems_spec E o
    ((if E.kind o = Kind.dynTraj then f.predCenter.getD [] else []) ++ [(E.t0 o, f.initCenter.getD [])]) r
  refine ⟨k1, fun l t x => ?_⟩
  rw [k2, itemsMem_append_single]
  have : (itemsMem (if E.kind o = Kind.dynTraj then f.predCenter.getD [] else []) t l ∨
      (t = E.t0 o ∧ l ∈ f.initCenter.getD [])) ↔ RecCenD E f o t l := by
    unfold RecCenD
    by_cases hk : E.kind o = Kind.dynTraj
    · simp only [hk, if_true, true_and]
      cases hp : f.predCenter <;> cases hc : f.initCenter <;> simp [itemsMem] <;> exact or_comm
    · simp only [hk, if_false, false_and, or_false]
      cases hc : f.initCenter <;> simp [itemsMem]
  rw [this]

theorem unregShape_spec (E : Env) (o : Id) (f : Fwd) (r : DReg) :
    (∀ l t, (unregShape E o f r l t).isSome = (r l t).isSome) ∧
    ∀ l t x, memD (unregShape E o f r) l t x ↔ memD r l t x ∧ ¬(x = o ∧ l ∈ E.lanelets ∧ RecShapeD E f o t l) := by
  unfold unregShape
  obtain ⟨g1, g2⟩ := discardDyn_spec E o (E.t0 o) (f.initShape.getD []) r
  have hinit : ∀ l, l ∈ f.initShape.getD [] ↔ ∃ ids, f.initShape = some ids ∧ l ∈ ids := by
    intro l; cases f.initShape <;> simp
  by_cases hk : E.kind o = Kind.dynTraj
  · simp only [hk, if_true]
    obtain ⟨k1, k2⟩ := discardItems_spec E o (f.predShape.getD []) (discardDyn E o (E.t0 o) (f.initShape.getD []) r)
    have hpred : ∀ t l, itemsMem (f.predShape.getD []) t l ↔ ∃ d, f.predShape = some d ∧ itemsMem d t l := by
      intro t l; cases f.predShape <;> simp [itemsMem]
    refine ⟨fun l t => by rw [k1, g1], fun l t x => ?_⟩
    rw [k2, g2, hinit, hpred]
    unfold RecShapeD
    simp only [hk, true_and]
    constructor
    · rintro ⟨⟨h1, h2⟩, h3⟩
      refine ⟨h1, ?_⟩
      rintro ⟨rfl, h4, (⟨rfl, h5⟩ | h5)⟩
      · exact h2 ⟨rfl, rfl, h5, h4⟩
      · exact h3 ⟨rfl, h4, h5⟩
    · rintro ⟨h1, h2⟩
      exact ⟨⟨h1, fun h3 => h2 ⟨h3.1, h3.2.2.2, Or.inl ⟨h3.2.1, h3.2.2.1⟩⟩⟩, fun h3 => h2 ⟨h3.1, h3.2.1, Or.inr h3.2.2⟩⟩
  · simp only [hk, if_false]
    refine ⟨g1, fun l t x => ?_⟩
    rw [g2, hinit]
    unfold RecShapeD
    simp only [hk, false_and, or_false]
    constructor
    · rintro ⟨h1, h2⟩; exact ⟨h1, fun h3 => h2 ⟨h3.1, h3.2.2.1, h3.2.2.2, h3.2.1⟩⟩
    · rintro ⟨h1, h2⟩; exact ⟨h1, fun h3 => h2 ⟨h3.1, h3.2.2.2, h3.2.1, h3.2.2.1⟩⟩

theorem addToLanelets_spec (E : Env) (s s' : St) (o : Id) (h : addToLanelets E s o = .ok s') :
    s'.fwd = s.fwd ∧ s'.statics = s.statics ∧ s'.dynamics = s.dynamics ∧
    (E.kind o = Kind.static → s'.dreg = s.dreg ∧
      ∀ l x, x ∈ s'.sreg l ↔ x ∈ s.sreg l ∨ (x = o ∧ E.lanelets ≠ [] ∧ RecShapeS (s.fwd o) l)) ∧
    (E.kind o ≠ Kind.static → s'.sreg = s.sreg ∧
      ∀ l t x, memD s'.dreg l t x ↔ memD s.dreg l t x ∨
        (x = o ∧ ¬(E.kind o = Kind.dynSet ∨ E.lanelets = []) ∧ RecShapeD E (s.fwd o) o t l)) := by
  unfold addToLanelets at h
  split at h
  · next hk =>
    obtain ⟨r, hr, h⟩ := bind_ok.mp h
    cases pure_ok.mp h
    exact ⟨rfl, rfl, rfl, fun _ => ⟨rfl, addStaticReg_spec E o _ _ _ hr⟩, fun hne => absurd hk hne⟩
  · next hk =>
    split at h
    · next hl =>
      cases h
      refine ⟨rfl, rfl, rfl, fun e => absurd e hk, fun _ => ⟨rfl, fun l t x => ?_⟩⟩
      simp [hl]
    · next hl =>
      obtain ⟨r1, hr1, h⟩ := bind_ok.mp h
      obtain ⟨r2, hr2, h⟩ := bind_ok.mp h
      cases pure_ok.mp h
      refine ⟨rfl, rfl, rfl, fun e => absurd e hk, fun _ => ⟨rfl, fun l t x => ?_⟩⟩
      show memD r2 l t x ↔ _
      rw [regPred_spec E o _ _ _ hr2, (regInit_spec E o _ _ _ hr1).2]
      simp only [RecShapeD]
      constructor
      · rintro ((h | ⟨rfl, h⟩) | ⟨rfl, h⟩)
        · exact Or.inl h
        · exact Or.inr ⟨rfl, hl, Or.inl h⟩
        · exact Or.inr ⟨rfl, hl, Or.inr h⟩
      · rintro (h | ⟨rfl, _, (h | h)⟩)
        · exact Or.inl (Or.inl h)
        · exact Or.inl (Or.inr ⟨rfl, h⟩)
        · exact Or.inr ⟨rfl, h⟩

theorem ne_nil_of_mem {l : Id} {L : List Id} (h : l ∈ L) : L ≠ [] := by
  intro e; rw [e] at h; cases h

/-- entering obstacle `o` of the scenario into the registries (once more) -/
theorem invOn_addToLanelets {P : Id → Prop} {E : Env} {s s' : St} {o : Id} (hw : WfEnv E) (hi : InvOn P E s)
    (hin : o ∈ s.statics ∨ o ∈ s.dynamics) (h : addToLanelets E s o = .ok s') :
    InvOn (fun x => P x ∨ x = o) E s' := by
  obtain ⟨e1, e2, e3, hS, hD⟩ := addToLanelets_spec E s s' o h
  by_cases hk : E.kind o = Kind.static
  · obtain ⟨e4, e5⟩ := hS hk
    have hos : o ∈ s.statics := by
      rcases hin with h | h
      · exact h
      · exact absurd hk (hi.kindD o h)
    refine ⟨fun x => by rw [e1]; exact hi.coh x, fun x hx => hi.kindS x (e2 ▸ hx), fun x hx => hi.kindD x (e3 ▸ hx), ?_, ?_⟩
    · intro l x
      rw [e5, hi.invS, e1, e2]
      constructor
      · rintro (⟨h1, h2, h3⟩ | ⟨rfl, _, h3⟩)
        · exact ⟨Or.inl h1, h2, h3⟩
        · exact ⟨Or.inr rfl, hos, h3⟩
      · rintro ⟨(h1 | rfl), h2, h3⟩
        · exact Or.inl ⟨h1, h2, h3⟩
        · exact Or.inr ⟨rfl, ne_nil_of_mem (hw.shp_sub _ _ _ (RecShapeS.mem_lanelets (hi.coh _) h3)), h3⟩
    · intro l t x
      rw [e4, hi.invD, e1, e3]
      constructor
      · rintro ⟨h1, h2, h3⟩; exact ⟨Or.inl h1, h2, h3⟩
      · rintro ⟨(h1 | rfl), h2, h3⟩
        · exact ⟨h1, h2, h3⟩
        · exact absurd hk (hi.kindD _ h2)
  · obtain ⟨e4, e5⟩ := hD hk
    have hod : o ∈ s.dynamics := by
      rcases hin with h | h
      · exact absurd (hi.kindS o h) hk
      · exact h
    refine ⟨fun x => by rw [e1]; exact hi.coh x, fun x hx => hi.kindS x (e2 ▸ hx), fun x hx => hi.kindD x (e3 ▸ hx), ?_, ?_⟩
    · intro l x
      rw [e4, hi.invS, e1, e2]
      constructor
      · rintro ⟨h1, h2, h3⟩; exact ⟨Or.inl h1, h2, h3⟩
      · rintro ⟨(h1 | rfl), h2, h3⟩
        · exact ⟨h1, h2, h3⟩
        · exact absurd (hi.kindS _ h2) hk
    · intro l t x
      rw [e5, hi.invD, e1, e3]
      constructor
      · rintro (⟨h1, h2, h3⟩ | ⟨rfl, _, h3⟩)
        · exact ⟨Or.inl h1, h2, h3⟩
        · exact ⟨Or.inr rfl, hod, h3⟩
      · rintro ⟨(h1 | rfl), h2, h3⟩
        · exact Or.inl ⟨h1, h2, h3⟩
        · refine Or.inr ⟨rfl, ?_, h3⟩
          rintro (h4 | h4)
          · exact RecShapeD.not_set (hi.coh _) h3 h4
          · exact ne_nil_of_mem (hw.shp_sub _ _ _ (RecShapeD.sound (hi.coh _) h3).1) h4

/-! ### add_objects / remove_obstacle keep the invariant -/

theorem inv_add {E : Env} {s s' : St} {o : Id} (hw : WfEnv E) (hi : Inv E s) (h : add E s o = .ok s') : Inv E s' := by
  unfold add at h
  split at h
  · cases h
  · next hn =>
    have hns : o ∉ s.statics := fun h' => hn (Or.inl h')
    have hnd : o ∉ s.dynamics := fun h' => hn (Or.inr (Or.inl h'))
    split at h
    · next hk =>
      have h1 : InvOn (fun x => x ≠ o) E { s with statics := s.statics ++ [o] } := by
        refine ⟨hi.coh, ?_, hi.kindD, ?_, ?_⟩
        · intro x hx
          rcases List.mem_append.mp hx with hx | hx
          · exact hi.kindS x hx
          · rw [List.mem_singleton.mp hx]; exact hk
        · intro l x
          rw [hi.invS]
          simp only [true_and, List.mem_append, List.mem_singleton]
          constructor
          · rintro ⟨h2, h3⟩; exact ⟨fun e => hns (e ▸ h2), Or.inl h2, h3⟩
          · rintro ⟨h2, (h3 | h3), h4⟩
            · exact ⟨h3, h4⟩
            · exact absurd h3 h2
        · intro l t x
          rw [hi.invD]
          simp only [true_and]
          constructor
          · rintro ⟨h2, h3⟩; exact ⟨fun e => hnd (e ▸ h2), h2, h3⟩
          · rintro ⟨_, h3, h4⟩; exact ⟨h3, h4⟩
      have h2 := invOn_addToLanelets hw h1 (Or.inl (List.mem_append.mpr (Or.inr (List.mem_singleton.mpr rfl)))) h
      exact h2.congr (fun x => by simp only [iff_true]; by_cases e : x = o <;> simp [e])
    · next hk =>
      have h1 : InvOn (fun x => x ≠ o) E { s with dynamics := s.dynamics ++ [o] } := by
        refine ⟨hi.coh, hi.kindS, ?_, ?_, ?_⟩
        · intro x hx
          rcases List.mem_append.mp hx with hx | hx
          · exact hi.kindD x hx
          · rw [List.mem_singleton.mp hx]; exact hk
        · intro l x
          rw [hi.invS]
          simp only [true_and]
          constructor
          · rintro ⟨h2, h3⟩; exact ⟨fun e => hns (e ▸ h2), h2, h3⟩
          · rintro ⟨_, h3, h4⟩; exact ⟨h3, h4⟩
        · intro l t x
          rw [hi.invD]
          simp only [true_and, List.mem_append, List.mem_singleton]
          constructor
          · rintro ⟨h2, h3⟩; exact ⟨fun e => hnd (e ▸ h2), Or.inl h2, h3⟩
          · rintro ⟨h2, (h3 | h3), h4⟩
            · exact ⟨h3, h4⟩
            · exact absurd h3 h2
      have h2 := invOn_addToLanelets hw h1 (Or.inr (List.mem_append.mpr (Or.inr (List.mem_singleton.mpr rfl)))) h
      exact h2.congr (fun x => by simp only [iff_true]; by_cases e : x = o <;> simp [e])

theorem inv_remove {E : Env} {s s' : St} {o : Id} (hw : WfEnv E) (hi : Inv E s) (h : remove E s o = .ok s') :
    Inv E s' := by
  unfold remove at h
  split at h
  · next hos =>
    cases h
    refine ⟨hi.coh, fun x hx => hi.kindS x (List.mem_filter.mp hx).1, hi.kindD, ?_, hi.invD⟩
    intro l x
    show x ∈ removeStaticReg E o (s.fwd o) s.sreg l ↔ _
    rw [removeStaticReg_spec, hi.invS]
    simp only [true_and, List.mem_filter, decide_eq_true_eq]
    constructor
    · rintro ⟨⟨h1, h2⟩, h3⟩
      refine ⟨⟨h1, ?_⟩, h2⟩
      rintro rfl
      exact h3 ⟨rfl, effShp_sub hw (RecShapeS.mem_eff (hi.coh x) h2), Or.inl h2⟩
    · rintro ⟨⟨h1, h2⟩, h3⟩
      exact ⟨⟨h1, h3⟩, fun h4 => h2 h4.1⟩
  · next hos =>
    split at h
    · next hod =>
      split at h
      · next hl =>
        cases h
        refine ⟨hi.coh, hi.kindS, fun x hx => hi.kindD x (List.mem_filter.mp hx).1, hi.invS, ?_⟩
        intro l t x
        show memD s.dreg l t x ↔ _
        rw [hi.invD]
        simp only [true_and, List.mem_filter, decide_eq_true_eq]
        constructor
        · rintro ⟨h1, h2⟩
          refine ⟨⟨h1, ?_⟩, h2⟩
          rintro rfl
          rcases hl with hl | hl
          · exact RecShapeD.not_set (hi.coh _) h2 hl
          · have := hw.shp_sub _ _ _ (RecShapeD.sound (hi.coh _) h2).1
            rw [hl] at this; cases this
        · rintro ⟨⟨h1, _⟩, h2⟩; exact ⟨h1, h2⟩
      · next hl =>
        cases h
        refine ⟨hi.coh, hi.kindS, fun x hx => hi.kindD x (List.mem_filter.mp hx).1, hi.invS, ?_⟩
        intro l t x
        show memD (unregCenter E o (s.fwd o) (unregShape E o (s.fwd o) s.dreg)) l t x ↔ _
        rw [(unregCenter_spec E o _ _).2, (unregShape_spec E o _ _).2, hi.invD]
        simp only [true_and, List.mem_filter, decide_eq_true_eq]
        constructor
        · rintro ⟨⟨⟨h1, h2⟩, h3⟩, _⟩
          refine ⟨⟨h1, ?_⟩, h2⟩
          rintro rfl
          exact h3 ⟨rfl, hw.shp_sub _ _ _ (RecShapeD.sound (hi.coh _) h2).1, h2⟩
        · rintro ⟨⟨h1, h2⟩, h3⟩
          exact ⟨⟨⟨h1, h3⟩, fun h4 => h2 h4.1⟩, fun h4 => h2 h4.1⟩
    · cases h; exact hi

/-! ### assign_obstacles_to_lanelets keeps the invariant -/

theorem itemsMem_dictSet {d : Dict} {t t' : T} {v : List Id} {l : Id} (hv : ∀ w, (t, w) ∈ d → w = v) :
    itemsMem (dictSet d t v) t' l ↔ itemsMem d t' l ∨ (t' = t ∧ l ∈ v) := by
  constructor
  · rintro ⟨w, hm, hl⟩
    rcases mem_dictSet_imp _ _ _ _ _ hm with h | ⟨rfl, rfl⟩
    · exact Or.inl ⟨w, h, hl⟩
    · exact Or.inr ⟨rfl, hl⟩
  · rintro (⟨w, hm, hl⟩ | ⟨rfl, hl⟩)
    · by_cases e : t' = t
      · subst e
        rw [hv w hm] at hl
        exact ⟨v, mem_dictSet_self _ _ _, hl⟩
      · exact ⟨w, mem_dictSet_of_ne _ _ _ _ _ hm e, hl⟩
    · exact ⟨v, mem_dictSet_self _ _ _, hl⟩

theorem tf_ge (E : Env) (o : Id) : E.t0 o ≤ E.tf o := by
  unfold Env.tf
  exact Int.le_add_of_nonneg_right (Int.natCast_nonneg _)

/-- effect of one shape-based assignment at an admissible time step on the recorded relation -/
theorem assign_rec {E : Env} {o : Id} {f f3 : Fwd} {t : T} (hc : Coh E f o) (hns : E.kind o ≠ Kind.dynSet)
    (ht : t = E.t0 o ∨ (E.kind o = Kind.dynTraj ∧ E.t0 o ≤ t ∧ t ≤ E.tf o))
    (h1 : f3.initShape = (if t = E.t0 o then some (E.shp o t) else f.initShape))
    (h2 : f3.initCenter = (if t = E.t0 o then some (E.cen o t) else f.initCenter))
    (h3 : E.kind o = Kind.dynTraj → ∃ dc ds, f.predCenter = some dc ∧ f.predShape = some ds ∧
        f3.predCenter = some (dictSet dc t (E.cen o t)) ∧ f3.predShape = some (dictSet ds t (E.shp o t)))
    (h4 : E.kind o ≠ Kind.dynTraj → f3.predCenter = f.predCenter ∧ f3.predShape = f.predShape) :
    Coh E f3 o ∧
    (∀ l, RecShapeS f3 l ↔ (if t = E.t0 o then l ∈ E.shp o t else RecShapeS f l)) ∧
    ∀ t' l, RecShapeD E f3 o t' l ↔ RecShapeD E f o t' l ∨ (t' = t ∧ l ∈ E.shp o t) := by
  refine ⟨⟨?_, ?_, ?_, ?_, ?_⟩, ?_, ?_⟩
  · intro ids hi
    rw [h2] at hi
    split at hi
    · next e => cases hi; rw [e, effCen_of_ne _ hns]
    · exact hc.initCenter ids hi
  · intro d hd t' ids hm
    by_cases hk : E.kind o = Kind.dynTraj
    · obtain ⟨dc, ds, e1, _, e3, _⟩ := h3 hk
      rw [e3] at hd; cases hd
      rcases mem_dictSet_imp _ _ _ _ _ hm with h | ⟨rfl, rfl⟩
      · exact hc.predCenter dc e1 t' ids h
      · refine ⟨rfl, ?_⟩
        rcases ht with rfl | ⟨_, h5, h6⟩
        · exact ⟨Int.le_refl _, tf_ge E o⟩
        · exact ⟨h5, h6⟩
    · rw [(h4 hk).1] at hd
      exact hc.predCenter d hd t' ids hm
  · intro ids hi
    rw [h1] at hi
    split at hi
    · next e => cases hi; rw [e, effShp_of_ne _ hns]
    · exact hc.initShape ids hi
  · intro d hd t' ids hm
    by_cases hk : E.kind o = Kind.dynTraj
    · obtain ⟨dc, ds, _, e2, _, e4⟩ := h3 hk
      rw [e4] at hd; cases hd
      rcases mem_dictSet_imp _ _ _ _ _ hm with h | ⟨rfl, rfl⟩
      · exact hc.predShape ds e2 t' ids h
      · refine ⟨rfl, ?_⟩
        rcases ht with rfl | ⟨_, h5, h6⟩
        · exact ⟨Int.le_refl _, tf_ge E o⟩
        · exact ⟨h5, h6⟩
    · rw [(h4 hk).2] at hd
      exact hc.predShape d hd t' ids hm
  · intro ids hi
    rw [h2]
    rw [h1] at hi
    split
    · rfl
    · next e => rw [if_neg e] at hi; exact hc.center ids hi
  · intro l
    unfold RecShapeS
    rw [h1]
    split <;> simp
  · intro t' l
    unfold RecShapeD
    by_cases hk : E.kind o = Kind.dynTraj
    · obtain ⟨dc, ds, _, e2, _, e4⟩ := h3 hk
      have hv : ∀ w, (t, w) ∈ ds → w = E.shp o t := fun w hw => (hc.predShape ds e2 t w hw).1
      simp only [hk, true_and, e2, e4, Option.some.injEq, exists_eq_left', itemsMem_dictSet hv, h1]
      by_cases e : t = E.t0 o
      · simp only [e, if_true, Option.some.injEq, exists_eq_left']
        constructor
        · rintro (⟨rfl, h⟩ | h | ⟨rfl, h⟩)
          · exact Or.inr ⟨rfl, h⟩
          · exact Or.inl (Or.inr h)
          · exact Or.inr ⟨rfl, h⟩
        · rintro ((⟨rfl, ids, h5, h6⟩ | h) | ⟨rfl, h⟩)
          · rw [hc.initShape ids h5] at h6; exact Or.inl ⟨rfl, (mem_effShp.mp h6).2⟩
          · exact Or.inr (Or.inl h)
          · exact Or.inl ⟨rfl, h⟩
      · simp only [e, if_false]
        exact or_assoc.symm
    · obtain ⟨_, e4⟩ := h4 hk
      have e : t = E.t0 o := by
        rcases ht with h | ⟨h, _⟩
        · exact h
        · exact absurd h hk
      simp only [hk, false_and, or_false, h1, e, if_true, Option.some.injEq, exists_eq_left']
      constructor
      · rintro ⟨rfl, h⟩; exact Or.inr ⟨rfl, h⟩
      · rintro (⟨rfl, ids, h5, h6⟩ | ⟨rfl, h⟩)
        · rw [hc.initShape ids h5] at h6; exact ⟨rfl, (mem_effShp.mp h6).2⟩
        · exact ⟨rfl, h⟩

theorem assignFwd_false (E : Env) (o : Id) (f : Fwd) (t : T) (lids : List Id) (f3 : Fwd)
    (h : assignFwd E false o f t = .ok (lids, f3)) :
    E.kind o ≠ Kind.dynSet ∧
    lids = E.shp o t ∧
    f3.initShape = (if t = E.t0 o then some (E.shp o t) else f.initShape) ∧
    f3.initCenter = (if t = E.t0 o then some (E.cen o t) else f.initCenter) ∧
    (E.kind o = Kind.dynTraj → ∃ dc ds, f.predCenter = some dc ∧ f.predShape = some ds ∧
        f3.predCenter = some (dictSet dc t (E.cen o t)) ∧ f3.predShape = some (dictSet ds t (E.shp o t))) ∧
    (E.kind o ≠ Kind.dynTraj → f3.predCenter = f.predCenter ∧ f3.predShape = f.predShape) := by
  unfold assignFwd at h
  by_cases hset : E.kind o = Kind.dynSet
  · rw [if_pos hset] at h; cases h
  rw [if_neg hset] at h
  refine ⟨hset, ?_⟩
  by_cases hk : E.kind o = Kind.dynTraj
  · simp only [hk, if_true, Bool.false_eq_true, if_false] at h
    cases hc : f.predCenter with
    | none => simp [hc, bind, Except.bind] at h
    | some dc =>
      cases hs : f.predShape with
      | none => simp [hc, hs, bind, Except.bind, pure, Except.pure] at h
      | some ds =>
        simp only [hc, hs, bind, Except.bind, pure, Except.pure, Except.ok.injEq, Prod.mk.injEq] at h
        obtain ⟨rfl, rfl⟩ := h
        refine ⟨rfl, ?_, ?_, fun _ => ⟨dc, ds, rfl, rfl, ?_, ?_⟩, fun hne => absurd hk hne⟩ <;> split <;> rfl
  · simp only [hk, if_false, Bool.false_eq_true, bind, Except.bind, pure, Except.pure, Except.ok.injEq, Prod.mk.injEq] at h
    obtain ⟨rfl, rfl⟩ := h
    refine ⟨rfl, ?_, ?_, fun e => absurd e hk, fun _ => ⟨?_, ?_⟩⟩ <;> split <;> rfl

theorem setFwd_fwd (s : St) (o x : Id) (f : Fwd) : (s.setFwd o f).fwd x = if x = o then f else s.fwd x := rfl
@[simp] theorem setFwd_statics (s : St) (o : Id) (f : Fwd) : (s.setFwd o f).statics = s.statics := rfl
@[simp] theorem setFwd_dynamics (s : St) (o : Id) (f : Fwd) : (s.setFwd o f).dynamics = s.dynamics := rfl
@[simp] theorem setFwd_sreg (s : St) (o : Id) (f : Fwd) : (s.setFwd o f).sreg = s.sreg := rfl
@[simp] theorem setFwd_dreg (s : St) (o : Id) (f : Fwd) : (s.setFwd o f).dreg = s.dreg := rfl

theorem foldlM_inv {σ α : Type} (f : σ → α → Res σ) (Q : σ → Prop)
    (hstep : ∀ s a s', Q s → f s a = .ok s' → Q s') :
    ∀ (l : List α) (s s' : σ), Q s → l.foldlM f s = .ok s' → Q s' := by
  intro l
  induction l with
  | nil => intro s s' hq h; simp only [List.foldlM_nil, pure_ok] at h; exact h ▸ hq
  | cons a as ih =>
    intro s s' hq h
    rw [List.foldlM_cons] at h
    obtain ⟨s1, h1, h2⟩ := bind_ok.mp h
    exact ih s1 s' (hstep s a s1 hq h1) h2

theorem inv_assignDynAt {E : Env} {s s' : St} {o : Id} {t : T} (hi : Inv E s) (hod : o ∈ s.dynamics)
    (h : assignDynAt E false o s t = .ok s') : Inv E s' ∧ s'.statics = s.statics ∧ s'.dynamics = s.dynamics := by
  unfold assignDynAt at h
  split at h
  · cases h; exact ⟨hi, rfl, rfl⟩
  · next hskip =>
    split at h
    · cases h
    · next hlt =>
      obtain ⟨⟨lids, f3⟩, ha, h⟩ := bind_ok.mp h
      obtain ⟨r, hr, h⟩ := bind_ok.mp h
      cases pure_ok.mp h
      have ht : t = E.t0 o ∨ (E.kind o = Kind.dynTraj ∧ E.t0 o ≤ t ∧ t ≤ E.tf o) := by
        by_cases e : t = E.t0 o
        · exact Or.inl e
        · right
          have h5 : ¬(E.kind o ≠ Kind.dynTraj ∨ E.tf o < t) := fun h6 => hskip ⟨e, h6⟩
          refine ⟨Classical.not_not.mp (fun h6 => h5 (Or.inl h6)), Int.not_lt.mp hlt, Int.not_lt.mp (fun h6 => h5 (Or.inr h6))⟩
      obtain ⟨ens, e0, e1, e2, e3, e4⟩ := assignFwd_false E o _ t lids f3 ha
      subst e0
      obtain ⟨c1, _, c3⟩ := assign_rec (hi.coh o) ens ht e1 e2 e3 e4
      obtain ⟨_, hreg⟩ := regDyn_spec E o t _ _ _ hr
      have hns : o ∉ s.statics := fun h6 => hi.kindD o hod (hi.kindS o h6)
      refine ⟨⟨?_, hi.kindS, hi.kindD, ?_, ?_⟩, rfl, rfl⟩
      · intro x
        show Coh E ((s.setFwd o f3).fwd x) x
        rw [setFwd_fwd]
        split
        · next e => rw [e]; exact c1
        · exact hi.coh x
      · intro l x
        show x ∈ s.sreg l ↔ True ∧ x ∈ s.statics ∧ RecShapeS ((s.setFwd o f3).fwd x) l
        rw [setFwd_fwd, hi.invS]
        by_cases e : x = o
        · subst e; simp [hns]
        · simp [e]
      · intro l t' x
        show memD r l t' x ↔ True ∧ x ∈ s.dynamics ∧ RecShapeD E ((s.setFwd o f3).fwd x) x t' l
        rw [setFwd_fwd, hreg, hi.invD]
        by_cases e : x = o
        · subst e
          simp only [true_and, if_true, c3, hod]
        · simp [e]

/-- attributes as an assignment / a reader writes them: both initial sets are the lookup answers -/
theorem coh_mk {E : Env} {o : Id} (hns : E.kind o ≠ Kind.dynSet) (pc ps : Option Dict)
    (hpc : ∀ d, pc = some d → ∀ t ids, (t, ids) ∈ d → ids = E.cen o t ∧ E.t0 o ≤ t ∧ t ≤ E.tf o)
    (hps : ∀ d, ps = some d → ∀ t ids, (t, ids) ∈ d → ids = E.shp o t ∧ E.t0 o ≤ t ∧ t ≤ E.tf o) :
    Coh E ⟨some (E.cen o (E.t0 o)), some (E.shp o (E.t0 o)), pc, ps⟩ o := by
  refine ⟨?_, hpc, ?_, hps, ?_⟩
  · intro ids h; cases h; exact (effCen_of_ne _ hns).symm
  · intro ids h; cases h; exact (effShp_of_ne _ hns).symm
  · intro ids _; rfl

theorem coh_none {E : Env} {o : Id} : ∀ d, (none : Option Dict) = some d → ∀ t ids, (t, ids) ∈ d →
    ids = E.cen o t ∧ E.t0 o ≤ t ∧ t ≤ E.tf o := by
  intro d h; cases h

theorem coh_none' {E : Env} {o : Id} : ∀ d, (none : Option Dict) = some d → ∀ t ids, (t, ids) ∈ d →
    ids = E.shp o t ∧ E.t0 o ≤ t ∧ t ≤ E.tf o := by
  intro d h; cases h

theorem recShapeS_mk (c : Option (List Id)) (ids : List Id) (pc ps : Option Dict) (l : Id) :
    RecShapeS ⟨c, some ids, pc, ps⟩ l ↔ l ∈ ids := by simp [RecShapeS]

theorem inv_assignStatic {E : Env} {s s' : St} {o : Id} (hi : Inv E s) (hos : o ∈ s.statics)
    (h : assignStatic E false o s = .ok s') : Inv E s' ∧ s'.statics = s.statics ∧ s'.dynamics = s.dynamics := by
  unfold assignStatic at h
  simp only [Bool.false_eq_true, if_false] at h
  obtain ⟨r, hr, h⟩ := bind_ok.mp h
  cases pure_ok.mp h
  obtain ⟨_, hreg⟩ := regStatic_spec E o _ _ _ hr
  have hnd : o ∉ s.dynamics := fun h6 => hi.kindD o h6 (hi.kindS o hos)
  refine ⟨⟨?_, hi.kindS, hi.kindD, ?_, ?_⟩, rfl, rfl⟩
  · intro x
    simp only [setFwd_fwd]
    split
    · next e =>
      subst e
      exact coh_mk (by rw [hi.kindS x hos]; intro h; cases h) _ _ (hi.coh x).predCenter (hi.coh x).predShape
    · exact hi.coh x
  · intro l x
    simp only [setFwd_fwd, setFwd_statics]
    rw [hreg, hi.invS]
    by_cases e : x = o
    · subst e
      simp only [true_and, if_true, hos, recShapeS_mk]
      constructor
      · rintro (h6 | h6)
        · obtain ⟨ids, h7, h8⟩ := h6
          rw [(hi.coh x).initShape ids h7] at h8; exact (mem_effShp.mp h8).2
        · exact h6
      · intro h6; exact Or.inr h6
    · simp [e]
  · intro l t' x
    simp only [setFwd_fwd, setFwd_dynamics, setFwd_dreg]
    rw [hi.invD]
    by_cases e : x = o
    · subst e; simp [hnd]
    · simp [e]

theorem coh_initDicts {E : Env} {f : Fwd} {o : Id} (co : Bool) (hc : Coh E f o) : Coh E (initDicts co f) o := by
  refine ⟨hc.initCenter, ?_, hc.initShape, ?_, hc.center⟩
  · intro d hd
    unfold initDicts at hd
    cases hp : f.predCenter with
    | none => simp [hp] at hd; subst hd; intro t ids hm; cases hm
    | some d' => simp [hp] at hd; subst hd; exact hc.predCenter d' hp
  · intro d hd
    unfold initDicts at hd
    cases hp : f.predShape with
    | none =>
      cases co
      · simp [hp] at hd; subst hd; intro t ids hm; cases hm
      · simp [hp] at hd
    | some d' => simp [hp] at hd; subst hd; exact hc.predShape d' hp

theorem inv_initDicts {E : Env} {s : St} {o : Id} (hi : Inv E s) :
    Inv E (s.setFwd o (initDicts false (s.fwd o))) := by
  have hrec : ∀ t l, RecShapeD E (initDicts false (s.fwd o)) o t l ↔ RecShapeD E (s.fwd o) o t l := by
    intro t l
    unfold RecShapeD initDicts
    cases hp : (s.fwd o).predShape with
    | none => simp [itemsMem]
    | some d => simp
  refine ⟨?_, hi.kindS, hi.kindD, ?_, ?_⟩
  · intro x
    simp only [setFwd_fwd]
    split
    · next e =>
      subst e
      exact coh_initDicts false (hi.coh x)
    · exact hi.coh x
  · intro l x
    simp only [setFwd_fwd, setFwd_statics, setFwd_sreg]
    rw [hi.invS]
    by_cases e : x = o
    · subst e; simp [RecShapeS, initDicts]
    · simp [e]
  · intro l t x
    simp only [setFwd_fwd, setFwd_dynamics, setFwd_dreg]
    rw [hi.invD]
    by_cases e : x = o
    · subst e; simp [hrec]
    · simp [e]

theorem inv_assignObs {E : Env} {s s' : St} {o : Id} {ts : Option (List T)} (hi : Inv E s)
    (h : assignObs E ts false s o = .ok s') : Inv E s' ∧ s'.statics = s.statics ∧ s'.dynamics = s.dynamics := by
  unfold assignObs at h
  split at h
  · next hod =>
    have key : ∀ (s1 : St), Inv E s1 → s1.statics = s.statics → s1.dynamics = s.dynamics →
        ∀ (steps : List T), steps.foldlM (assignDynAt E false o) s1 = .ok s' →
        Inv E s' ∧ s'.statics = s.statics ∧ s'.dynamics = s.dynamics := by
      intro s1 h1 h2 h3 steps hf
      refine foldlM_inv (assignDynAt E false o)
        (fun x => Inv E x ∧ x.statics = s.statics ∧ x.dynamics = s.dynamics) ?_ steps s1 s' ⟨h1, h2, h3⟩ hf
      rintro x t x' ⟨q1, q2, q3⟩ hx
      obtain ⟨p1, p2, p3⟩ := inv_assignDynAt q1 (q3 ▸ hod) hx
      exact ⟨p1, p2.trans q2, p3.trans q3⟩
    have hs1 : Inv E (if E.kind o = Kind.dynTraj then s.setFwd o (initDicts false (s.fwd o)) else s) := by
      split
      · exact inv_initDicts hi
      · exact hi
    have e2 : (if E.kind o = Kind.dynTraj then s.setFwd o (initDicts false (s.fwd o)) else s).statics = s.statics := by
      split <;> rfl
    have e3 : (if E.kind o = Kind.dynTraj then s.setFwd o (initDicts false (s.fwd o)) else s).dynamics = s.dynamics := by
      split <;> rfl
    split at h
    · cases h
    · exact key _ hs1 e2 e3 _ h
  · split at h
    · next hos => exact inv_assignStatic hi hos h
    · cases h

theorem inv_assign {E : Env} {s s' : St} {ids : Option (List Id)} {ts : Option (List T)} (hi : Inv E s)
    (h : assign E ids ts false s = .ok s') : Inv E s' ∧ s'.statics = s.statics ∧ s'.dynamics = s.dynamics := by
  unfold assign at h
  refine foldlM_inv (assignObs E ts false)
    (fun x => Inv E x ∧ x.statics = s.statics ∧ x.dynamics = s.dynamics) ?_ _ s s' ⟨hi, rfl, rfl⟩ h
  rintro x o x' ⟨q1, q2, q3⟩ hx
  obtain ⟨p1, p2, p3⟩ := inv_assignObs q1 hx
  exact ⟨p1, p2.trans q2, p3.trans q3⟩

/-! ### reading a file with lanelet assignment keeps (re-establishes) the invariant -/

theorem itemsMem_map (f : T → List Id) (steps : List T) (t : T) (l : Id) :
    itemsMem (steps.map (fun t => (t, f t))) t l ↔ t ∈ steps ∧ l ∈ f t := by
  unfold itemsMem
  simp only [List.mem_map, Prod.mk.injEq]
  constructor
  · rintro ⟨ids, ⟨a, ha, rfl, rfl⟩, hl⟩; exact ⟨ha, hl⟩
  · rintro ⟨h1, h2⟩; exact ⟨f t, ⟨t, h1, rfl, rfl⟩, h2⟩

theorem recShapeD_mk_traj (E : Env) (o : Id) (c : Option (List Id)) (ids : List Id) (pc : Option Dict)
    (f : T → List Id) (steps : List T) (t : T) (l : Id) :
    RecShapeD E ⟨c, some ids, pc, some (steps.map (fun t => (t, f t)))⟩ o t l ↔
      (t = E.t0 o ∧ l ∈ ids) ∨ (E.kind o = Kind.dynTraj ∧ t ∈ steps ∧ l ∈ f t) := by
  simp [RecShapeD, itemsMem_map]

theorem recShapeD_mk_none (E : Env) (o : Id) (c : Option (List Id)) (ids : List Id) (pc : Option Dict) (t : T) (l : Id) :
    RecShapeD E ⟨c, some ids, pc, none⟩ o t l ↔ (t = E.t0 o ∧ l ∈ ids) := by
  simp [RecShapeD]

theorem invOn_readObs {P : Id → Prop} {E : Env} {s s' : St} {o : Id} (hi : InvOn P E s)
    (hin : o ∈ s.statics ∨ o ∈ s.dynamics) (h : readObs E s o = .ok s') :
    InvOn (fun x => P x ∨ x = o) E s' ∧ s'.statics = s.statics ∧ s'.dynamics = s.dynamics := by
  unfold readObs at h
  split at h
  · next hk =>
    -- static obstacle
    have hos : o ∈ s.statics := by
      rcases hin with h' | h'
      · exact h'
      · exact absurd hk (hi.kindD o h')
    have hnd : o ∉ s.dynamics := fun h6 => hi.kindD o h6 hk
    unfold readStatic at h
    obtain ⟨r, hr, h⟩ := bind_ok.mp h
    cases pure_ok.mp h
    obtain ⟨_, hreg⟩ := regStatic_spec E o _ _ _ hr
    refine ⟨⟨?_, hi.kindS, hi.kindD, ?_, ?_⟩, rfl, rfl⟩
    · intro x
      simp only [setFwd_fwd]
      split
      · next e =>
        subst e
        exact coh_mk (by rw [hk]; intro h; cases h) none none coh_none coh_none'
      · exact hi.coh x
    · intro l x
      simp only [setFwd_fwd, setFwd_statics]
      rw [hreg, hi.invS]
      by_cases e : x = o
      · subst e
        simp only [or_true, true_and, if_true, hos, recShapeS_mk]
        constructor
        · rintro (⟨_, ids, h7, h8⟩ | h6)
          · rw [(hi.coh x).initShape ids h7] at h8; exact (mem_effShp.mp h8).2
          · exact h6
        · intro h6; exact Or.inr h6
      · simp [e]
    · intro l t' x
      simp only [setFwd_fwd, setFwd_dynamics, setFwd_dreg]
      rw [hi.invD]
      by_cases e : x = o
      · subst e; simp [hnd]
      · simp [e]
  · next hk =>
    have hod : o ∈ s.dynamics := by
      rcases hin with h' | h'
      · exact absurd (hi.kindS o h') hk
      · exact h'
    have hns : o ∉ s.statics := fun h6 => hk (hi.kindS o h6)
    unfold readDynamic at h
    split at h
    · next hset =>
      -- set-based prediction: `set()` is recorded, nothing is registered
      cases h
      refine ⟨⟨?_, hi.kindS, hi.kindD, ?_, ?_⟩, rfl, rfl⟩
      · intro x
        simp only [setFwd_fwd]
        split
        · next e =>
          subst e
          refine ⟨?_, coh_none, ?_, coh_none', ?_⟩
          · intro ids hids; cases hids
            unfold effCen; rw [if_pos hset]
          · intro ids hids; cases hids
            unfold effShp; rw [if_pos hset]
          · intro ids _; rfl
        · exact hi.coh x
      · intro l x
        simp only [setFwd_fwd, setFwd_statics, setFwd_sreg]
        rw [hi.invS]
        by_cases e : x = o
        · subst e; simp [hns]
        · simp [e]
      · intro l t x
        simp only [setFwd_fwd, setFwd_dynamics, setFwd_dreg]
        rw [hi.invD]
        by_cases e : x = o
        · subst e
          simp only [or_true, true_and, if_true, hod, recShapeD_mk_none, List.not_mem_nil, and_false, iff_false]
          rintro ⟨_, h3⟩
          exact RecShapeD.not_set (hi.coh x) h3 hset
        · simp [e]
    next hset =>
    obtain ⟨r1, hr1, h⟩ := bind_ok.mp h
    obtain ⟨_, hreg1⟩ := regDyn_spec E o _ _ _ _ hr1
    -- what the registries held for `o` before is part of the new relation
    have hold : ∀ l t, (P o ∧ o ∈ s.dynamics ∧ RecShapeD E (s.fwd o) o t l) →
        (t = E.t0 o ∧ l ∈ E.shp o (E.t0 o)) ∨
        (E.kind o = Kind.dynTraj ∧ t ∈ trange (E.t0 o) (E.len o) ∧ l ∈ E.shp o t) := by
      rintro l t ⟨_, _, h3⟩
      obtain ⟨h4, h5⟩ := RecShapeD.sound (hi.coh o) h3
      rcases h5 with rfl | ⟨h6, h7, h8⟩
      · exact Or.inl ⟨rfl, h4⟩
      · exact Or.inr ⟨h6, mem_trange.mpr ⟨h7, h8⟩, h4⟩
    split at h
    · next hkt =>
      obtain ⟨r2, hr2, h⟩ := bind_ok.mp h
      cases pure_ok.mp h
      obtain ⟨_, hreg2⟩ := regItems_spec E o _ _ _ hr2
      refine ⟨⟨?_, hi.kindS, hi.kindD, ?_, ?_⟩, rfl, rfl⟩
      · intro x
        simp only [setFwd_fwd]
        split
        · next e =>
          subst e
          refine coh_mk hset _ _ ?_ ?_
          · intro d hd t ids hm
            cases hd
            obtain ⟨a, ha, e1⟩ := List.mem_map.mp hm
            cases e1
            obtain ⟨h7, h8⟩ := mem_trange.mp ha
            exact ⟨rfl, h7, h8⟩
          · intro d hd t ids hm
            cases hd
            obtain ⟨a, ha, e1⟩ := List.mem_map.mp hm
            cases e1
            obtain ⟨h7, h8⟩ := mem_trange.mp ha
            exact ⟨rfl, h7, h8⟩
        · exact hi.coh x
      · intro l x
        simp only [setFwd_fwd, setFwd_statics, setFwd_sreg]
        rw [hi.invS]
        by_cases e : x = o
        · subst e; simp [hns]
        · simp [e]
      · intro l t x
        simp only [setFwd_fwd, setFwd_dynamics]
        rw [hreg2, hreg1, hi.invD]
        by_cases e : x = o
        · subst e
          simp only [or_true, true_and, if_true, hod, recShapeD_mk_traj, itemsMem_map]
          constructor
          · rintro ((h6 | h6) | h6)
            · rcases hold l t ⟨h6.1, hod, h6.2⟩ with h7 | h7
              · exact Or.inl h7
              · exact Or.inr h7
            · exact Or.inl h6
            · exact Or.inr ⟨hkt, h6⟩
          · rintro (h6 | ⟨_, h6⟩)
            · exact Or.inl (Or.inr h6)
            · exact Or.inr h6
        · simp [e]
    · next k hkt =>
      cases pure_ok.mp h
      have hkt' : E.kind o ≠ Kind.dynTraj := fun e => hkt e
      refine ⟨⟨?_, hi.kindS, hi.kindD, ?_, ?_⟩, rfl, rfl⟩
      · intro x
        simp only [setFwd_fwd]
        split
        · next e =>
          subst e
          exact coh_mk hset none none coh_none coh_none'
        · exact hi.coh x
      · intro l x
        simp only [setFwd_fwd, setFwd_statics, setFwd_sreg]
        rw [hi.invS]
        by_cases e : x = o
        · subst e; simp [hns]
        · simp [e]
      · intro l t x
        simp only [setFwd_fwd, setFwd_dynamics]
        rw [hreg1, hi.invD]
        by_cases e : x = o
        · subst e
          simp only [or_true, true_and, if_true, hod, recShapeD_mk_none]
          constructor
          · rintro (h6 | h6)
            · rcases hold l t ⟨h6.1, hod, h6.2⟩ with h7 | ⟨h7, _⟩
              · exact h7
              · exact absurd h7 hkt'
            · exact h6
          · intro h6; exact Or.inr h6
        · simp [e]

theorem invOn_clearReg {E : Env} {s : St} (hi : Base E s) : InvOn (fun _ => False) E s.clearReg := by
  refine ⟨hi.coh, hi.kindS, hi.kindD, ?_, ?_⟩
  · intro l o; simp [St.clearReg]
  · intro l t o; simp [St.clearReg, memD]

theorem invOn_to_inv {P : Id → Prop} {E : Env} {s : St} (hi : InvOn P E s)
    (hP : ∀ x, (x ∈ s.statics ∨ x ∈ s.dynamics) → P x) : Inv E s := by
  refine ⟨hi.coh, hi.kindS, hi.kindD, ?_, ?_⟩
  · intro l o
    rw [hi.invS]
    constructor
    · rintro ⟨_, h2, h3⟩; exact ⟨trivial, h2, h3⟩
    · rintro ⟨_, h2, h3⟩; exact ⟨hP o (Or.inl h2), h2, h3⟩
  · intro l t o
    rw [hi.invD]
    constructor
    · rintro ⟨_, h2, h3⟩; exact ⟨trivial, h2, h3⟩
    · rintro ⟨_, h2, h3⟩; exact ⟨hP o (Or.inr h2), h2, h3⟩

theorem foldlM_prefix {σ α : Type} (f : σ → α → Res σ) (L : List α) (Q : List α → σ → Prop)
    (hstep : ∀ pre s a s', a ∈ L → Q pre s → f s a = .ok s' → Q (pre ++ [a]) s') :
    ∀ (l : List α), (∀ a ∈ l, a ∈ L) → ∀ (pre : List α) (s s' : σ), Q pre s → l.foldlM f s = .ok s' → Q (pre ++ l) s' := by
  intro l
  induction l with
  | nil =>
    intro _ pre s s' hq h
    simp only [List.foldlM_nil, pure_ok] at h
    rw [List.append_nil]; exact h ▸ hq
  | cons a as ih =>
    intro hl pre s s' hq h
    rw [List.foldlM_cons] at h
    obtain ⟨s1, h1, h2⟩ := bind_ok.mp h
    have := ih (fun b hb => hl b (List.mem_cons_of_mem _ hb)) (pre ++ [a]) s1 s'
      (hstep pre s a s1 (hl a List.mem_cons_self) hq h1) h2
    rwa [List.append_assoc, List.singleton_append] at this

theorem inv_reopenXml {E : Env} {s s' : St} (hw : WfEnv E) (hi : Base E s) (h : reopenXml E s = .ok s') :
    Inv E s' ∧ s'.statics = s.statics ∧ s'.dynamics = s.dynamics := by
  unfold reopenXml at h
  obtain ⟨s1, h1, h2⟩ := bind_ok.mp h
  -- phase 1: every factory
  have p1 := foldlM_prefix (readObs E) (s.statics ++ s.dynamics)
    (fun pre x => InvOn (fun y => y ∈ pre) E x ∧ x.statics = s.statics ∧ x.dynamics = s.dynamics)
    (by
      rintro pre x a x' ha ⟨q1, q2, q3⟩ hx
      have hin : a ∈ x.statics ∨ a ∈ x.dynamics := by rw [q2, q3]; exact List.mem_append.mp ha
      obtain ⟨r1, r2, r3⟩ := invOn_readObs q1 hin hx
      exact ⟨r1.congr (fun y => by simp [List.mem_append]), r2.trans q2, r3.trans q3⟩)
    (s.statics ++ s.dynamics) (fun a ha => ha) [] s.clearReg s1
    ⟨(invOn_clearReg hi).congr (fun y => by simp), rfl, rfl⟩ h1
  obtain ⟨q1, q2, q3⟩ := p1
  have hi1 : Inv E s1 := invOn_to_inv q1 (fun x hx => by
    rw [q2, q3] at hx; simpa [List.mem_append] using hx)
  -- phase 2: scenario.add_objects(list)
  refine foldlM_prefix (addToLanelets E) (s.statics ++ s.dynamics)
    (fun _ x => Inv E x ∧ x.statics = s.statics ∧ x.dynamics = s.dynamics) ?_
    (s.statics ++ s.dynamics) (fun a ha => ha) [] s1 s' ⟨hi1, q2, q3⟩ h2
  rintro _ x a x' ha ⟨r1, r2, r3⟩ hx
  have hin : a ∈ x.statics ∨ a ∈ x.dynamics := by rw [r2, r3]; exact List.mem_append.mp ha
  have r4 := invOn_addToLanelets hw r1 hin hx
  obtain ⟨e1, e2, e3, _⟩ := addToLanelets_spec E x x' a hx
  exact ⟨r4.congr (fun y => by simp), e2.trans r2, e3.trans r3⟩

theorem inv_reopenPb {E : Env} {s s' : St} (hw : WfEnv E) (hi : Base E s) (h : reopenPb E s = .ok s') :
    Inv E s' ∧ s'.statics = s.statics ∧ s'.dynamics = s.dynamics := by
  unfold reopenPb at h
  have p1 := foldlM_prefix (fun s o => do let s' ← readObs E s o; addToLanelets E s' o) (s.statics ++ s.dynamics)
    (fun pre x => InvOn (fun y => y ∈ pre) E x ∧ x.statics = s.statics ∧ x.dynamics = s.dynamics)
    (by
      rintro pre x a x' ha ⟨q1, q2, q3⟩ hx
      obtain ⟨x1, hx1, hx2⟩ := bind_ok.mp hx
      have hin : a ∈ x.statics ∨ a ∈ x.dynamics := by rw [q2, q3]; exact List.mem_append.mp ha
      obtain ⟨r1, r2, r3⟩ := invOn_readObs q1 hin hx1
      have r4 := invOn_addToLanelets hw r1 (by rw [r2, r3]; exact hin) hx2
      obtain ⟨_, e2, e3, _⟩ := addToLanelets_spec E x1 x' a hx2
      exact ⟨r4.congr (fun y => by simp [List.mem_append]), e2.trans (r2.trans q2), e3.trans (r3.trans q3)⟩)
    (s.statics ++ s.dynamics) (fun a ha => ha) [] s.clearReg s'
    ⟨(invOn_clearReg hi).congr (fun y => by simp), rfl, rfl⟩ h
  obtain ⟨q1, q2, q3⟩ := p1
  exact ⟨invOn_to_inv q1 (fun x hx => by rw [q2, q3] at hx; simpa [List.mem_append] using hx), q2, q3⟩

/-! ### what an assignment records (assign_correct) -/

/-- `t` is a time step of obstacle `o`'s horizon -/
def InHorizon (E : Env) (o : Id) (t : T) : Prop :=
  t = E.t0 o ∨ (E.kind o = Kind.dynTraj ∧ E.t0 o ≤ t ∧ t ≤ E.tf o)

/-- the centre and shape sets recorded on obstacle `o` for time step `t` are exactly the two lookup answers:
    `initial_*_lanelet_ids` at the initial time step, `prediction.*_lanelet_assignment[t]` with a trajectory prediction -/
def Assigned (E : Env) (f : Fwd) (o : Id) (t : T) : Prop :=
  (t = E.t0 o → f.initCenter = some (E.cen o t) ∧ f.initShape = some (E.shp o t)) ∧
  (E.kind o = Kind.dynTraj → ∃ dc ds, f.predCenter = some dc ∧ f.predShape = some ds ∧
      dictGet dc t = some (E.cen o t) ∧ dictGet ds t = some (E.shp o t))

theorem foldlM_establish {σ α : Type} (f : σ → α → Res σ) (R : σ → Prop) (a0 : α)
    (hpres : ∀ s a s', R s → f s a = .ok s' → R s') (hest : ∀ s s', f s a0 = .ok s' → R s') :
    ∀ (l : List α) (s s' : σ), a0 ∈ l → l.foldlM f s = .ok s' → R s' := by
  intro l
  induction l with
  | nil => intro s s' h; cases h
  | cons a as ih =>
    intro s s' hm h
    rw [List.foldlM_cons] at h
    obtain ⟨s1, h1, h2⟩ := bind_ok.mp h
    rcases List.mem_cons.mp hm with rfl | hm
    · exact foldlM_inv f R hpres as s1 s' (hest s s1 h1) h2
    · exact ih s1 s' hm h2

/-- one time-step assignment of obstacle `o'` keeps what is recorded for `(o, t)` and records `(o', t')` itself -/
theorem assigned_assignDynAt {E : Env} {s s' : St} {o o' : Id} {t t' : T}
    (h : assignDynAt E false o' s t' = .ok s') :
    (Assigned E (s.fwd o) o t → Assigned E (s'.fwd o) o t) ∧
    (o = o' → t = t' → InHorizon E o t → Assigned E (s'.fwd o) o t) := by
  unfold assignDynAt at h
  split at h
  · next hskip =>
    cases h
    refine ⟨id, ?_⟩
    rintro rfl rfl hh
    exfalso
    rcases hh with e | ⟨hk, _, h2⟩
    · exact hskip.1 e
    · rcases hskip.2 with h3 | h3
      · exact h3 hk
      · exact absurd h2 (Int.not_le.mpr h3)
  · split at h
    · cases h
    · obtain ⟨⟨lids, f3⟩, ha, h⟩ := bind_ok.mp h
      obtain ⟨r, hr, h⟩ := bind_ok.mp h
      cases pure_ok.mp h
      obtain ⟨_, e0, e1, e2, e3, e4⟩ := assignFwd_false E o' _ t' lids f3 ha
      have hfw : ∀ x, ({ s.setFwd o' f3 with dreg := r } : St).fwd x = if x = o' then f3 else s.fwd x := fun _ => rfl
      constructor
      · intro hA
        rw [hfw]
        split
        · next e =>
          subst e
          obtain ⟨hA1, hA2⟩ := hA
          refine ⟨?_, ?_⟩
          · intro et
            rw [e1, e2]
            by_cases e' : t' = E.t0 o
            · rw [if_pos e', if_pos e', e', ← et]; exact ⟨rfl, rfl⟩
            · rw [if_neg e', if_neg e']; exact hA1 et
          · intro hk
            obtain ⟨dc, ds, g1, g2, g3, g4⟩ := e3 hk
            obtain ⟨dc', ds', k1, k2, k3, k4⟩ := hA2 hk
            rw [g1] at k1; cases k1
            rw [g2] at k2; cases k2
            refine ⟨_, _, g3, g4, ?_, ?_⟩
            · by_cases e' : t = t'
              · subst e'; exact dictGet_dictSet_self _ _ _
              · rw [dictGet_dictSet_of_ne _ _ _ _ e']; exact k3
            · by_cases e' : t = t'
              · subst e'; exact dictGet_dictSet_self _ _ _
              · rw [dictGet_dictSet_of_ne _ _ _ _ e']; exact k4
        · exact hA
      · rintro rfl rfl _
        rw [hfw, if_pos rfl]
        refine ⟨?_, ?_⟩
        · intro et
          rw [e1, e2, if_pos et, if_pos et]; exact ⟨rfl, rfl⟩
        · intro hk
          obtain ⟨dc, ds, g1, g2, g3, g4⟩ := e3 hk
          exact ⟨_, _, g3, g4, dictGet_dictSet_self _ _ _, dictGet_dictSet_self _ _ _⟩

theorem assigned_initDicts {E : Env} {f : Fwd} {o : Id} {t : T} (h : Assigned E f o t) :
    Assigned E (initDicts false f) o t := by
  obtain ⟨h1, h2⟩ := h
  refine ⟨h1, ?_⟩
  intro hk
  obtain ⟨dc, ds, k1, k2, k3, k4⟩ := h2 hk
  exact ⟨dc, ds, by simp [initDicts, k1], by simp [initDicts, k2], k3, k4⟩

theorem assigned_assignStatic {E : Env} {s s' : St} {o o' : Id} {t : T}
    (h : assignStatic E false o' s = .ok s') :
    (Assigned E (s.fwd o) o t → Assigned E (s'.fwd o) o t) ∧
    (o = o' → E.kind o = Kind.static → t = E.t0 o → Assigned E (s'.fwd o) o t) := by
  unfold assignStatic at h
  simp only [Bool.false_eq_true, if_false] at h
  obtain ⟨r, hr, h⟩ := bind_ok.mp h
  cases pure_ok.mp h
  constructor
  · intro hA
    show Assigned E ((s.setFwd o' _).fwd o) o t
    rw [setFwd_fwd]
    split
    · next e =>
      subst e
      obtain ⟨hA1, hA2⟩ := hA
      refine ⟨fun et => ?_, hA2⟩
      rw [et]; exact ⟨rfl, rfl⟩
    · exact hA
  · rintro rfl hk rfl
    show Assigned E ((s.setFwd o _).fwd o) o _
    rw [setFwd_fwd, if_pos rfl]
    refine ⟨fun _ => ⟨rfl, rfl⟩, fun hk' => ?_⟩
    rw [hk] at hk'; cases hk'

theorem assignDynAt_lists {E : Env} {co : Bool} {s s' : St} {o : Id} {t : T} (h : assignDynAt E co o s t = .ok s') :
    s'.statics = s.statics ∧ s'.dynamics = s.dynamics := by
  unfold assignDynAt at h
  split at h
  · cases h; exact ⟨rfl, rfl⟩
  · split at h
    · cases h
    · obtain ⟨⟨lids, f3⟩, _, h⟩ := bind_ok.mp h
      obtain ⟨r, _, h⟩ := bind_ok.mp h
      cases pure_ok.mp h
      exact ⟨rfl, rfl⟩

theorem assignObs_lists {E : Env} {ts : Option (List T)} {co : Bool} {s s' : St} {o : Id}
    (h : assignObs E ts co s o = .ok s') : s'.statics = s.statics ∧ s'.dynamics = s.dynamics := by
  unfold assignObs at h
  split at h
  · have key : ∀ (steps : List T) (s1 : St), s1.statics = s.statics ∧ s1.dynamics = s.dynamics →
        steps.foldlM (assignDynAt E co o) s1 = .ok s' → s'.statics = s.statics ∧ s'.dynamics = s.dynamics := by
      intro steps s1 h1 hf
      refine foldlM_inv (assignDynAt E co o) (fun x => x.statics = s.statics ∧ x.dynamics = s.dynamics) ?_ steps s1 s' h1 hf
      rintro x t x' ⟨q2, q3⟩ hx
      obtain ⟨p2, p3⟩ := assignDynAt_lists hx
      exact ⟨p2.trans q2, p3.trans q3⟩
    split at h
    · cases h
    · exact key _ _ (by split <;> exact ⟨rfl, rfl⟩) h
  · split at h
    · unfold assignStatic at h
      obtain ⟨r, _, h⟩ := bind_ok.mp h
      cases pure_ok.mp h
      exact ⟨rfl, rfl⟩
    · cases h

/-- processing obstacle `o'` (all its time steps when `ts = none`) keeps what is recorded for `(o, t)`, and records it when
    `o' = o` is an obstacle of the scenario and `t` is in its horizon -/
theorem assigned_assignObs {E : Env} {s s' : St} {o o' : Id} {t : T}
    (hkS : ∀ x, x ∈ s.statics → E.kind x = Kind.static)
    (h : assignObs E none false s o' = .ok s') :
    (Assigned E (s.fwd o) o t → Assigned E (s'.fwd o) o t) ∧
    (o = o' → InHorizon E o t → Assigned E (s'.fwd o) o t) := by
  unfold assignObs at h
  split at h
  · next hod =>
    split at h
    · cases h
    have hpres : ∀ (x : St) (a : T) (x' : St), Assigned E (x.fwd o) o t → assignDynAt E false o' x a = .ok x' →
        Assigned E (x'.fwd o) o t := fun x a x' hA hx => (assigned_assignDynAt hx).1 hA
    constructor
    · intro hA
      refine foldlM_inv (assignDynAt E false o') (fun x => Assigned E (x.fwd o) o t) hpres _ _ s' ?_ h
      split
      · rw [setFwd_fwd]
        split
        · next e => subst e; exact assigned_initDicts hA
        · exact hA
      · exact hA
    · rintro rfl hh
      refine foldlM_establish (assignDynAt E false o) (fun x => Assigned E (x.fwd o) o t) t hpres
        (fun x x' hx => (assigned_assignDynAt hx).2 rfl rfl hh) _ _ s' ?_ h
      show t ∈ (if E.kind o = Kind.dynTraj then trange (E.t0 o) (E.len o) else [E.t0 o])
      rcases hh with e | ⟨hk, h1, h2⟩
      · split
        · rw [e]; exact mem_trange.mpr ⟨Int.le_refl _, tf_ge E o⟩
        · rw [e]; exact List.mem_singleton.mpr rfl
      · rw [if_pos hk]; exact mem_trange.mpr ⟨h1, h2⟩
  · next hnd =>
    split at h
    · next hos =>
      constructor
      · exact (assigned_assignStatic h).1
      · rintro rfl hh
        have hk := hkS o hos
        rcases hh with e | ⟨hk', _⟩
        · exact (assigned_assignStatic h).2 rfl hk e
        · rw [hk] at hk'; cases hk'
    · cases h

theorem foldlM_establish' {σ α : Type} (f : σ → α → Res σ) (Q R : σ → Prop) (a0 : α)
    (hQ : ∀ s a s', Q s → f s a = .ok s' → Q s')
    (hpres : ∀ s a s', Q s → R s → f s a = .ok s' → R s')
    (hest : ∀ s s', Q s → f s a0 = .ok s' → R s') :
    ∀ (l : List α) (s s' : σ), Q s → a0 ∈ l → l.foldlM f s = .ok s' → R s' := by
  intro l
  induction l with
  | nil => intro s s' _ h; cases h
  | cons a as ih =>
    intro s s' hq hm h
    rw [List.foldlM_cons] at h
    obtain ⟨s1, h1, h2⟩ := bind_ok.mp h
    rcases List.mem_cons.mp hm with rfl | hm
    · have := foldlM_inv f (fun x => Q x ∧ R x)
        (fun x a x' hx hf => ⟨hQ x a x' hx.1 hf, hpres x a x' hx.1 hx.2 hf⟩) as s1 s'
        ⟨hQ s _ s1 hq h1, hest s s1 hq h1⟩ h2
      exact this.2
    · exact ih s1 s' (hQ s a s1 hq h1) hm h2

/-- after `assign_obstacles_to_lanelets()` (all obstacles, all time steps, shapes) every obstacle of the scenario carries,
    for every time step of its horizon, exactly the two lookup answers -/
theorem assigned_assign {E : Env} {s s' : St} (hkS : ∀ x, x ∈ s.statics → E.kind x = Kind.static)
    (h : assign E none none false s = .ok s') :
    ∀ o, o ∈ s.statics ++ s.dynamics → ∀ t, InHorizon E o t → Assigned E (s'.fwd o) o t := by
  intro o ho t hh
  unfold assign at h
  refine foldlM_establish' (assignObs E none false) (fun x => x.statics = s.statics)
    (fun x => Assigned E (x.fwd o) o t) o ?_ ?_ ?_ _ s s' rfl ho h
  · intro x a x' hx hf; exact (assignObs_lists hf).1.trans hx
  · intro x a x' hx hR hf
    exact (assigned_assignObs (fun y hy => hkS y (hx ▸ hy)) hf).1 hR
  · intro x x' hx hf
    exact (assigned_assignObs (fun y hy => hkS y (hx ▸ hy)) hf).2 rfl hh

/-- a file read records the lookup answers for obstacle `o` over its whole horizon, and keeps what other obstacles carry -/
theorem assigned_readObs {E : Env} {s s' : St} {o o' : Id} {t : T} (h : readObs E s o' = .ok s') :
    (o ≠ o' → Assigned E (s.fwd o) o t → Assigned E (s'.fwd o) o t) ∧
    (o = o' → E.kind o ≠ Kind.dynSet → InHorizon E o t → Assigned E (s'.fwd o) o t) := by
  unfold readObs at h
  split at h
  · next hk =>
    unfold readStatic at h
    obtain ⟨r, _, h⟩ := bind_ok.mp h
    cases pure_ok.mp h
    constructor
    · intro hne hA
      show Assigned E ((s.setFwd o' _).fwd o) o t
      rw [setFwd_fwd, if_neg hne]; exact hA
    · rintro rfl hset hh
      show Assigned E ((s.setFwd o _).fwd o) o t
      rw [setFwd_fwd, if_pos rfl]
      refine ⟨fun et => by rw [et]; exact ⟨rfl, rfl⟩, fun hk' => ?_⟩
      rw [hk] at hk'; cases hk'
  · next hk =>
    unfold readDynamic at h
    split at h
    · next hset =>
      cases h
      constructor
      · intro hne hA
        show Assigned E ((s.setFwd o' _).fwd o) o t
        rw [setFwd_fwd, if_neg hne]; exact hA
      · rintro rfl hset' _; exact absurd hset hset'
    obtain ⟨r1, _, h⟩ := bind_ok.mp h
    split at h
    · next hkt =>
      obtain ⟨r2, _, h⟩ := bind_ok.mp h
      cases pure_ok.mp h
      constructor
      · intro hne hA
        show Assigned E ((s.setFwd o' _).fwd o) o t
        rw [setFwd_fwd, if_neg hne]; exact hA
      · rintro rfl hset hh
        show Assigned E ((s.setFwd o _).fwd o) o t
        rw [setFwd_fwd, if_pos rfl]
        have hm : t ∈ trange (E.t0 o) (E.len o) := by
          rcases hh with e | ⟨_, h1, h2⟩
          · rw [e]; exact mem_trange.mpr ⟨Int.le_refl _, tf_ge E o⟩
          · exact mem_trange.mpr ⟨h1, h2⟩
        refine ⟨fun et => by rw [et]; exact ⟨rfl, rfl⟩, fun _ => ⟨_, _, rfl, rfl, ?_, ?_⟩⟩
        · exact dictGet_map (fun t => E.cen o t) _ t hm
        · exact dictGet_map (fun t => E.shp o t) _ t hm
    · next k hkt =>
      cases pure_ok.mp h
      constructor
      · intro hne hA
        show Assigned E ((s.setFwd o' _).fwd o) o t
        rw [setFwd_fwd, if_neg hne]; exact hA
      · rintro rfl hset hh
        show Assigned E ((s.setFwd o _).fwd o) o t
        rw [setFwd_fwd, if_pos rfl]
        have e : t = E.t0 o := by
          rcases hh with e | ⟨hk', _⟩
          · exact e
          · exact absurd hk' (fun e => hkt e)
        refine ⟨fun et => by rw [et]; exact ⟨rfl, rfl⟩, fun hk' => absurd hk' (fun e => hkt e)⟩

theorem assigned_readObs_pres {E : Env} {s s' : St} {o o' : Id} {t : T} (hset : E.kind o ≠ Kind.dynSet) (hh : InHorizon E o t)
    (hA : Assigned E (s.fwd o) o t) (h : readObs E s o' = .ok s') : Assigned E (s'.fwd o) o t := by
  by_cases e : o = o'
  · exact (assigned_readObs h).2 e hset hh
  · exact (assigned_readObs h).1 e hA

theorem assigned_addToLanelets {E : Env} {s s' : St} {o o' : Id} {t : T}
    (hA : Assigned E (s.fwd o) o t) (h : addToLanelets E s o' = .ok s') : Assigned E (s'.fwd o) o t := by
  rw [(addToLanelets_spec E s s' o' h).1]; exact hA

theorem assigned_reopenXml {E : Env} {s s' : St} (h : reopenXml E s = .ok s') :
    ∀ o, o ∈ s.statics ++ s.dynamics → E.kind o ≠ Kind.dynSet → ∀ t, InHorizon E o t → Assigned E (s'.fwd o) o t := by
  intro o ho hset t hh
  unfold reopenXml at h
  obtain ⟨s1, h1, h2⟩ := bind_ok.mp h
  have p1 : Assigned E (s1.fwd o) o t :=
    foldlM_establish (readObs E) (fun x => Assigned E (x.fwd o) o t) o
      (fun x a x' hA hx => assigned_readObs_pres hset hh hA hx)
      (fun x x' hx => (assigned_readObs hx).2 rfl hset hh) _ _ s1 ho h1
  exact foldlM_inv (addToLanelets E) (fun x => Assigned E (x.fwd o) o t)
    (fun x a x' hA hx => assigned_addToLanelets hA hx) _ s1 s' p1 h2

theorem assigned_reopenPb {E : Env} {s s' : St} (h : reopenPb E s = .ok s') :
    ∀ o, o ∈ s.statics ++ s.dynamics → E.kind o ≠ Kind.dynSet → ∀ t, InHorizon E o t → Assigned E (s'.fwd o) o t := by
  intro o ho hset t hh
  unfold reopenPb at h
  refine foldlM_establish (fun s o => do let s' ← readObs E s o; addToLanelets E s' o)
    (fun x => Assigned E (x.fwd o) o t) o ?_ ?_ _ _ s' ho h
  · intro x a x' hA hx
    obtain ⟨x1, hx1, hx2⟩ := bind_ok.mp hx
    exact assigned_addToLanelets (assigned_readObs_pres hset hh hA hx1) hx2
  · intro x x' hx
    obtain ⟨x1, hx1, hx2⟩ := bind_ok.mp hx
    exact assigned_addToLanelets ((assigned_readObs hx1).2 rfl hset hh) hx2

/-! ### totality: removing never fails -/

/-- the repaired `remove_obstacle` cannot raise: every loop is guarded -/
theorem remove_total (E : Env) (s : St) (o : Id) : ∃ s', remove E s o = .ok s' := by
  unfold remove
  split
  · exact ⟨_, rfl⟩
  · split
    · split <;> exact ⟨_, rfl⟩
    · exact ⟨_, rfl⟩

theorem dictGet_mem : ∀ (d : Dict) (t : T) (v : List Id), dictGet d t = some v → (t, v) ∈ d := by
  intro d
  induction d with
  | nil => intro t v h; cases h
  | cons a as ih =>
    obtain ⟨k, u⟩ := a
    intro t v h
    simp only [dictGet] at h
    split at h
    · next e => cases h; rw [e]; exact List.mem_cons_self
    · exact List.mem_cons_of_mem _ (ih t v h)

/-- assigned over the whole horizon + coherent ⇒ the recorded relation IS the lookup relation on the horizon -/
theorem rec_iff_lookup {E : Env} {f : Fwd} {o : Id} (hc : Coh E f o)
    (ha : ∀ t, InHorizon E o t → Assigned E f o t) (t : T) (l : Id) :
    RecShapeD E f o t l ↔ (InHorizon E o t ∧ l ∈ E.shp o t) := by
  constructor
  · intro hr; exact ⟨(RecShapeD.sound hc hr).2, (RecShapeD.sound hc hr).1⟩
  · rintro ⟨hh, hl⟩
    obtain ⟨a1, a2⟩ := ha t hh
    rcases hh with e | ⟨hk, _, _⟩
    · exact Or.inl ⟨e, _, (a1 e).2, hl⟩
    · obtain ⟨dc, ds, _, k2, _, k4⟩ := a2 hk
      exact Or.inr ⟨hk, ds, k2, _, dictGet_mem ds t _ k4, hl⟩


/-! ### totality: add and the full assignment never fail -/

theorem foldlM_total {σ α : Type} (f : σ → α → Res σ) (Q : σ → Prop) (A : α → Prop)
    (hstep : ∀ s a, Q s → A a → ∃ s', f s a = .ok s' ∧ Q s') :
    ∀ (l : List α) (s : σ), Q s → (∀ a ∈ l, A a) → ∃ s', l.foldlM f s = .ok s' ∧ Q s' := by
  intro l
  induction l with
  | nil => intro s hq _; exact ⟨s, rfl, hq⟩
  | cons a as ih =>
    intro s hq ha
    obtain ⟨s1, h1, q1⟩ := hstep s a hq (ha a List.mem_cons_self)
    obtain ⟨s2, h2, q2⟩ := ih s1 q1 (fun b hb => ha b (List.mem_cons_of_mem _ hb))
    refine ⟨s2, ?_, q2⟩
    rw [List.foldlM_cons, h1]
    exact h2

/-- the two prediction dicts exist (they are created before the time-step loop) -/
def DictsReady (E : Env) (f : Fwd) (o : Id) : Prop :=
  E.kind o = Kind.dynTraj → f.predCenter.isSome ∧ f.predShape.isSome

theorem assignFwd_ok {E : Env} {o : Id} {f : Fwd} (t : T) (hset : E.kind o ≠ Kind.dynSet) (h : DictsReady E f o) :
    ∃ lids f3, assignFwd E false o f t = .ok (lids, f3) := by
  unfold assignFwd
  rw [if_neg hset]
  by_cases hk : E.kind o = Kind.dynTraj
  · obtain ⟨h1, h2⟩ := h hk
    obtain ⟨dc, hdc⟩ := Option.isSome_iff_exists.mp h1
    obtain ⟨ds, hds⟩ := Option.isSome_iff_exists.mp h2
    simp only [hk, if_true, hdc, hds, Bool.false_eq_true, if_false, bind, Except.bind, pure, Except.pure]
    exact ⟨_, _, rfl⟩
  · simp only [hk, if_false, Bool.false_eq_true, bind, Except.bind, pure, Except.pure]
    exact ⟨_, _, rfl⟩

theorem assignDynAt_total {E : Env} {s : St} {o : Id} {t : T} (hw : WfEnv E) (hset : E.kind o ≠ Kind.dynSet)
    (hr : DictsReady E (s.fwd o) o)
    (ht : E.t0 o ≤ t) : ∃ s', assignDynAt E false o s t = .ok s' ∧ DictsReady E (s'.fwd o) o := by
  unfold assignDynAt
  split
  · exact ⟨s, rfl, hr⟩
  · rw [if_neg (Int.not_lt.mpr ht)]
    obtain ⟨lids, f3, ha⟩ := assignFwd_ok t hset hr
    obtain ⟨_, e0, _, _, e3, _⟩ := assignFwd_false E o _ t lids f3 ha
    subst e0
    obtain ⟨r, hreg⟩ := regDyn_ok E o t (E.shp o t) s.dreg (fun l hl => hw.shp_sub o t l hl)
    refine ⟨{ s.setFwd o f3 with dreg := r }, ?_, ?_⟩
    · rw [ha]; simp only [bind, Except.bind]; rw [hreg]; rfl
    · intro hk
      obtain ⟨dc, ds, _, _, g3, g4⟩ := e3 hk
      show ((s.setFwd o f3).fwd o).predCenter.isSome ∧ ((s.setFwd o f3).fwd o).predShape.isSome
      rw [setFwd_fwd, if_pos rfl, g3, g4]; exact ⟨rfl, rfl⟩

theorem assignObs_total {E : Env} {s : St} {o : Id} (hw : WfEnv E) (hin : o ∈ s.statics ∨ o ∈ s.dynamics)
    (hset : o ∈ s.dynamics → E.kind o ≠ Kind.dynSet) :
    ∃ s', assignObs E none false s o = .ok s' := by
  unfold assignObs
  split
  · next hod =>
    rw [if_neg (hset hod)]
    -- dynamic: every step of the loop is ≥ the initial time step and the dicts exist
    have hsteps : ∀ a ∈ (if E.kind o = Kind.dynTraj then trange (E.t0 o) (E.len o) else [E.t0 o]), E.t0 o ≤ a := by
      intro a ha
      split at ha
      · exact (mem_trange.mp ha).1
      · rw [List.mem_singleton.mp ha]; exact Int.le_refl _
    have hready : DictsReady E ((if E.kind o = Kind.dynTraj then s.setFwd o (initDicts false (s.fwd o)) else s).fwd o) o := by
      intro hk
      rw [if_pos hk, setFwd_fwd, if_pos rfl]
      unfold initDicts
      constructor
      · show (if (s.fwd o).predCenter.isNone then some [] else (s.fwd o).predCenter).isSome
        cases (s.fwd o).predCenter <;> rfl
      · show (if (!false && (s.fwd o).predShape.isNone) then some [] else (s.fwd o).predShape).isSome
        cases (s.fwd o).predShape <;> rfl
    obtain ⟨s', h1, _⟩ := foldlM_total (assignDynAt E false o) (fun x => DictsReady E (x.fwd o) o) (fun a => E.t0 o ≤ a)
      (fun x a hq ha => assignDynAt_total hw (hset hod) hq ha) _ _ hready hsteps
    exact ⟨s', h1⟩
  · next hnd =>
    have hos : o ∈ s.statics := by
      rcases hin with h | h
      · exact h
      · exact absurd h hnd
    rw [if_pos hos]
    unfold assignStatic
    simp only [Bool.false_eq_true, if_false]
    obtain ⟨r, hr⟩ := regStatic_ok E o (E.shp o (E.t0 o)) s.sreg (fun l hl => hw.shp_sub o _ l hl)
    exact ⟨_, by rw [hr]; rfl⟩

theorem assign_total {E : Env} (hw : WfEnv E) (s : St) (hset : ∀ o, o ∈ s.dynamics → E.kind o ≠ Kind.dynSet) :
    ∃ s', assign E none none false s = .ok s' := by
  unfold assign
  obtain ⟨s', h, _⟩ := foldlM_total (assignObs E none false)
    (fun x => x.statics = s.statics ∧ x.dynamics = s.dynamics) (fun a => a ∈ s.statics ∨ a ∈ s.dynamics)
    (by
      rintro x a ⟨q2, q3⟩ ha
      obtain ⟨x', hx⟩ := assignObs_total (s := x) hw (by rw [q2, q3]; exact ha) (fun hd => hset a (q3 ▸ hd))
      obtain ⟨p2, p3⟩ := assignObs_lists hx
      exact ⟨x', hx, p2.trans q2, p3.trans q3⟩)
    (s.statics ++ s.dynamics) s ⟨rfl, rfl⟩ (fun a ha => List.mem_append.mp ha)
  exact ⟨s', h⟩

theorem addToLanelets_total {E : Env} {s : St} {o : Id} (hw : WfEnv E) (hc : Coh E (s.fwd o) o) :
    ∃ s', addToLanelets E s o = .ok s' := by
  unfold addToLanelets
  split
  · have : ∃ r, addStaticReg E o (s.fwd o) s.sreg = .ok r := by
      unfold addStaticReg
      split
      · exact ⟨_, rfl⟩
      · next ids hs =>
        split
        · exact ⟨_, rfl⟩
        · exact regStatic_ok E o ids _ (fun l hl => effShp_sub hw (hc.initShape ids hs ▸ hl))
    obtain ⟨r, hr⟩ := this
    exact ⟨_, by rw [hr]; rfl⟩
  · split
    · exact ⟨_, rfl⟩
    · have h1 : ∃ r1, regInit E o (s.fwd o) s.dreg = .ok r1 := by
        unfold regInit
        split
        · exact ⟨_, rfl⟩
        · next ids hs => exact regDyn_ok E o _ ids _ (fun l hl => effShp_sub hw (hc.initShape ids hs ▸ hl))
      obtain ⟨r1, hr1⟩ := h1
      have h2 : ∃ r2, regPred E o (s.fwd o) r1 = .ok r2 := by
        unfold regPred
        split
        · split
          · exact ⟨_, rfl⟩
          · next d hd =>
            exact regItems_ok E o d _ (fun t ids hm l hl => hw.shp_sub o t l ((hc.predShape d hd t ids hm).1 ▸ hl))
        · exact ⟨_, rfl⟩
      obtain ⟨r2, hr2⟩ := h2
      exact ⟨_, by rw [hr1]; simp only [bind, Except.bind]; rw [hr2]; rfl⟩

theorem add_total {E : Env} {s : St} {o : Id} (hw : WfEnv E) (hi : Base E s)
    (hfresh : o ∉ s.statics ∧ o ∉ s.dynamics ∧ o ∉ E.lanelets) : ∃ s', add E s o = .ok s' := by
  unfold add
  rw [if_neg (by rintro (h | h | h); exact hfresh.1 h; exact hfresh.2.1 h; exact hfresh.2.2 h)]
  split
  · exact addToLanelets_total (s := { s with statics := s.statics ++ [o] }) hw (hi.coh o)
  · exact addToLanelets_total (s := { s with dynamics := s.dynamics ++ [o] }) hw (hi.coh o)

end CR.Assign
