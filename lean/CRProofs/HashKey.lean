/-
  CRProofs.HashKey — `hash()` completes on every well-typed instance: soundness of the decidable builder/type
  compatibility check, and the check for the tables of commonroad-io.
-/
import CRModel.HashKey

namespace CR.EqHash

theorem Cls.mem_all (c : Cls) : c ∈ Cls.all := by
  cases c <;> simp [Cls.all]

theorem mem_shapes (s : Shape) : s ∈ shapes := by
  cases s with
  | none => simp [shapes]
  | num => simp [shapes]
  | str => simp [shapes]
  | ctr t => cases t <;> simp [shapes, allCtrs]
  | obj c =>
    simp only [shapes, List.mem_append, List.mem_map]
    exact Or.inr ⟨c, Cls.mem_all c, rfl⟩

/-- what `compat` says about one outermost form -/
def compatAt (n : Nat) (b : HB) (τ : Ty) (s : Shape) : Bool :=
  match tyStep τ s with
  | .no => true
  | .yes => (match step b s with
      | .ok => true
      | _ => false)
  | .each τ' => (match step b s with
      | .ok => true
      | .each eb => compat n eb τ'
      | _ => false)
  | .pairs τ' => (match step b s with
      | .ok => true
      | .keys kb => compat n kb .atom
      | .pairs pb => compat n pb τ'
      | _ => false)
  | .object => (match step b s with
      | .ok => true
      | .object => true
      | _ => false)

theorem compat_at {m : Nat} {b : HB} {τ : Ty} (h : compat m b τ = true) (s : Shape) :
    ∃ n, m = n + 1 ∧ compatAt n b τ s = true := by
  cases m with
  | zero => simp [compat] at h
  | succ n =>
    refine ⟨n, rfl, ?_⟩
    unfold compat at h
    exact List.all_eq_true.mp h s (mem_shapes s)

theorem compat_skip (n : Nat) (τ : Ty) : compat (n + 1) .skip τ = true := by
  unfold compat
  rw [List.all_eq_true]
  intro s _
  cases tyStep τ s <;> simp [step]

theorem compat_raw_atom : compat 1 .raw .atom = true := by decide

/-- If every attribute builder of every class is compatible with the admitted type of the attribute, then building and
    hashing completes on every well-typed value (parts: a Python value; chains of elements, of dict items (keys only /
    key and value), one item, its `[key, value]` and `[value]` chains, the attribute chain of an object). -/
theorem hok_of_typed (H : Cls → Nat → HB) (A : Cls → Nat → Ty) (ar : Cls → Option Nat)
    (hc : ∀ c i, ∃ n, compat n (H c i) (A c i) = true) (v : PyVal) :
    (∀ n b τ, compat n b τ = true → hasTy A ar v (.val τ) = true → hok H v (.val b) = true)
      ∧ (∀ n b τ, compat n b τ = true → hasTy A ar v (.elemsT τ) = true → hok H v (.elemsB b) = true)
      ∧ (∀ n b τ, compat n b .atom = true → hasTy A ar v (.itemsT τ) = true → hok H v (.keysB b) = true)
      ∧ (∀ n b τ, compat n b τ = true → hasTy A ar v (.itemsT τ) = true → hok H v (.itemsB b) = true)
      ∧ (∀ n1 n2 bk bv τ, compat n1 bk .atom = true → compat n2 bv τ = true → hasTy A ar v (.itemT τ) = true →
          hok H v (.item bk bv) = true)
      ∧ (∀ n1 n2 bk bv τ, compat n1 bk .atom = true → compat n2 bv τ = true → hasTy A ar v (.pairT τ) = true →
          hok H v (.pairB bk bv) = true)
      ∧ (∀ n bv τ, compat n bv τ = true → hasTy A ar v (.sndT τ) = true → hok H v (.sndB bv) = true)
      ∧ (∀ c i, hasTy A ar v (.fieldsT c i) = true → hok H v (.fieldsB c i) = true) := by
  induction v with
  | none =>
    refine ⟨fun n b τ hcp ht => ?_, by simp [hasTy], by simp [hasTy], by simp [hasTy], by simp [hasTy], by simp [hasTy],
      by simp [hasTy], by simp [hasTy]⟩
    obtain ⟨m, _, hat⟩ := compat_at hcp .none
    simp only [hasTy] at ht
    simp only [hok]
    unfold compatAt at hat
    split at ht <;> simp_all
    split at hat <;> simp_all
  | num r =>
    refine ⟨fun n b τ hcp ht => ?_, by simp [hasTy], by simp [hasTy], by simp [hasTy], by simp [hasTy], by simp [hasTy],
      by simp [hasTy], by simp [hasTy]⟩
    obtain ⟨m, _, hat⟩ := compat_at hcp .num
    simp only [hasTy] at ht
    simp only [hok]
    unfold compatAt at hat
    split at ht <;> simp_all
    split at hat <;> simp_all
  | str s =>
    refine ⟨fun n b τ hcp ht => ?_, by simp [hasTy], by simp [hasTy], by simp [hasTy], by simp [hasTy], by simp [hasTy],
      by simp [hasTy], by simp [hasTy]⟩
    obtain ⟨m, _, hat⟩ := compat_at hcp .str
    simp only [hasTy] at ht
    simp only [hok]
    unfold compatAt at hat
    split at ht <;> simp_all
    split at hat <;> simp_all
  | nil =>
    exact ⟨by simp [hasTy], by simp [hok], by simp [hok], by simp [hok], by simp [hasTy], by simp [hasTy],
      by simp [hasTy], by simp [hok]⟩
  | ctr t es ihes =>
    refine ⟨fun n b τ hcp ht => ?_, by simp [hasTy], by simp [hasTy], by simp [hasTy], ?_, by simp [hasTy],
      by simp [hasTy], by simp [hasTy]⟩
    · obtain ⟨m, rfl, hat⟩ := compat_at hcp (.ctr t)
      simp only [hasTy] at ht
      simp only [hok]
      unfold compatAt at hat
      cases hty : tyStep τ (.ctr t) <;> rw [hty] at ht hat <;> dsimp only at ht hat <;>
        cases hst : step b (.ctr t) <;> (try rw [hst] at hat) <;> (try dsimp only at hat ⊢)
      all_goals first
        | rfl
        | exact absurd ht (by decide)
        | exact absurd hat (by decide)
        | exact ihes.2.1 _ _ _ hat ht
        | exact ihes.2.2.1 _ _ _ hat ht
        | exact ihes.2.2.2.1 _ _ _ hat ht
    · intro n1 n2 bk bv τ h1 h2 ht
      cases t <;> simp only [hasTy] at ht <;> first | exact absurd ht (by decide) | skip
      simp only [hok]
      exact ihes.2.2.2.2.2.1 _ _ _ _ _ h1 h2 ht
  | obj c f ihf =>
    refine ⟨fun n b τ hcp ht => ?_, by simp [hasTy], by simp [hasTy], by simp [hasTy], by simp [hasTy], by simp [hasTy],
      by simp [hasTy], by simp [hasTy]⟩
    obtain ⟨m, rfl, hat⟩ := compat_at hcp (.obj c)
    simp only [hasTy] at ht
    simp only [hok]
    unfold compatAt at hat
    cases hty : tyStep τ (.obj c) <;> rw [hty] at ht hat <;> dsimp only at ht hat <;>
      cases hst : step b (.obj c) <;> (try rw [hst] at hat) <;> (try dsimp only at hat ⊢)
    all_goals first
      | rfl
      | exact absurd ht (by decide)
      | exact absurd hat (by decide)
      | exact ihf.2.2.2.2.2.2.2 c 0 ht
  | cons h t ihh iht =>
    refine ⟨by simp [hasTy], fun n b τ hcp ht => ?_, fun n b τ hcp ht => ?_, fun n b τ hcp ht => ?_, by simp [hasTy],
      fun n1 n2 bk bv τ h1 h2 ht => ?_, fun n bv τ hcp ht => ?_, fun c i ht => ?_⟩
    · simp only [hasTy, Bool.and_eq_true] at ht
      simp only [hok, Bool.and_eq_true]
      exact ⟨ihh.1 _ _ _ hcp ht.1, iht.2.1 _ _ _ hcp ht.2⟩
    · simp only [hasTy, Bool.and_eq_true] at ht
      simp only [hok, Bool.and_eq_true]
      exact ⟨ihh.2.2.2.2.1 _ _ _ _ _ hcp (compat_skip 0 τ) ht.1, iht.2.2.1 _ _ _ hcp ht.2⟩
    · simp only [hasTy, Bool.and_eq_true] at ht
      simp only [hok, Bool.and_eq_true]
      exact ⟨ihh.2.2.2.2.1 _ _ _ _ _ compat_raw_atom hcp ht.1, iht.2.2.2.1 _ _ _ hcp ht.2⟩
    · simp only [hasTy, Bool.and_eq_true] at ht
      simp only [hok, Bool.and_eq_true]
      exact ⟨ihh.1 _ _ _ h1 ht.1, iht.2.2.2.2.2.2.1 _ _ _ h2 ht.2⟩
    · cases t <;> simp only [hasTy] at ht <;> first | exact absurd ht (by decide) | skip
      simp only [hok]
      exact ihh.1 _ _ _ hcp ht
    · simp only [hasTy, Bool.and_eq_true] at ht
      simp only [hok, Bool.and_eq_true]
      obtain ⟨n, hn⟩ := hc c i
      exact ⟨ihh.1 _ _ _ hn ht.1, iht.2.2.2.2.2.2.2 _ _ ht.2⟩

/-! ## the tables of commonroad-io -/

/-- every attribute builder of the class row is compatible with the admitted type of the attribute -/
def hrowOk (r : HRow) : Bool :=
  r.attrs.all (fun a => compat compatFuel a.hb a.ty) && compat compatFuel r.restHb r.restTy

theorem hrows_ok (c : Cls) : hrowOk (hrow c) = true := by
  cases c <;> decide

theorem tables_compat (c : Cls) (i : Nat) : ∃ n, compat n (hashB c i) (attrTy c i) = true := by
  refine ⟨compatFuel, ?_⟩
  have hr := hrows_ok c
  simp only [hrowOk, Bool.and_eq_true, List.all_eq_true] at hr
  unfold hashB attrTy
  cases ha : (hrow c).attrs[i]? with
  | none => exact hr.2
  | some a => exact hr.1 a (List.mem_of_getElem? ha)

/-- `hash(x)` completes for every well-typed object of every class family -/
theorem hash_total (c : Cls) (x : PyVal) (h : wellTyped c x = true) : hashCompletes x = true := by
  have hraw : compat 2 .raw (.obj [c]) = true := by cases c <;> decide
  exact (hok_of_typed hashB attrTy arity tables_compat x).1 _ _ _ hraw h

end CR.EqHash
