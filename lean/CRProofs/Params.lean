/-
  CRProofs.Params — lemmas about `CR.Params.Grp.set` (model of `BaseParam.__setattr__`).
-/
import CRModel.Params
namespace CR.Params

@[simp] theorem get_cons (k k' : String) (v : Val) (r : Fields) :
    (Fields.cons k v r).get k' = if k = k' then some v else r.get k' := by
  cases v <;> simp [Fields.cons, Fields.get]

@[simp] theorem declares_cons (k name : String) (v : Val) (r : Fields) :
    (Fields.cons k v r).declares name = (k == name || r.declares name) := by
  cases v <;> simp [Fields.cons, Fields.declares]

/-- A field list declares `name` iff a lookup of `name` succeeds. -/
theorem declares_iff_get : ∀ (fs : Fields) (name : String),
    fs.declares name = true ↔ (fs.get name).isSome = true
  | .nil, _ => by simp [Fields.declares, Fields.get]
  | .atom k a r, name => by
    by_cases h : k = name
    · simp [Fields.declares, Fields.get, h]
    · simp [Fields.declares, Fields.get, h, declares_iff_get r name]
  | .grp k g r, name => by
    by_cases h : k = name
    · simp [Fields.declares, Fields.get, h]
    · simp [Fields.declares, Fields.get, h, declares_iff_get r name]

/-- Nothing in a field list is named `name` ⇒ step (1) changes nothing. -/
theorem assign_noop : ∀ (fs : Fields) (name : String) (v : Val),
    fs.declaresDeep name = false → fs.assign name v = fs
  | .nil, _, _, _ => rfl
  | .atom k a r, name, v, h => by
    simp only [Fields.declaresDeep, Bool.or_eq_false_iff, beq_eq_false_iff_ne, ne_eq] at h
    simp [Fields.assign, h.1, assign_noop r name v h.2]
  | .grp k g r, name, v, h => by
    simp only [Fields.declaresDeep, Bool.or_eq_false_iff, beq_eq_false_iff_ne, ne_eq] at h
    simp [Fields.assign, h.1.1, assign_noop r name v h.2]

mutual
  /-- A group in which nothing declares `name` is not changed by `__setattr__(name, ·)`: this is why the
      model need not visit the group it has just stored (see CRModel/Params.lean). -/
  theorem set_noop : ∀ (g : Grp) (name : String) (v : Val),
      g.declaresDeep name = false → g.set name v = g
    | .mk init fs, name, v, h => by
      simp only [Grp.declaresDeep] at h
      cases init
      · simp [Grp.set, assign_noop fs name v h]
      · simp [Grp.set, setF_noop fs name v h]
  theorem setF_noop : ∀ (fs : Fields) (name : String) (v : Val),
      fs.declaresDeep name = false → fs.setF name v = fs
    | .nil, _, _, _ => rfl
    | .atom k a r, name, v, h => by
      simp only [Fields.declaresDeep, Bool.or_eq_false_iff, beq_eq_false_iff_ne, ne_eq] at h
      simp [Fields.setF, h.1, setF_noop r name v h.2]
    | .grp k g r, name, v, h => by
      simp only [Fields.declaresDeep, Bool.or_eq_false_iff, beq_eq_false_iff_ne, ne_eq] at h
      simp [Fields.setF, h.1.1, set_noop g name v h.1.2, setF_noop r name v h.2]
end

/-- Lookup of another key after a set: the old value, itself subjected to the set if it is a group. -/
theorem get_setF_other : ∀ (fs : Fields) (name k : String) (v : Val), k ≠ name →
    (fs.setF name v).get k = (fs.get k).map (Val.set name v)
  | .nil, _, _, _, _ => rfl
  | .atom k' a r, name, k, v, h => by
    have hn : ¬ name = k := fun e => h e.symm
    by_cases h1 : k' = name
    · subst h1
      simp [Fields.setF, Fields.get, hn, get_setF_other r k' k v h]
    · by_cases h2 : k' = k
      · subst h2
        simp [Fields.setF, Fields.get, h1, Val.set]
      · simp [Fields.setF, Fields.get, h1, h2, get_setF_other r name k v h]
  | .grp k' g r, name, k, v, h => by
    have hn : ¬ name = k := fun e => h e.symm
    by_cases h1 : k' = name
    · subst h1
      simp [Fields.setF, Fields.get, hn, get_setF_other r k' k v h]
    · by_cases h2 : k' = k
      · subst h2
        simp [Fields.setF, Fields.get, h1, Val.set]
      · simp [Fields.setF, Fields.get, h1, h2, get_setF_other r name k v h]

/-- Lookup of the assigned key after a set on a group that declares it: the assigned value. -/
theorem get_setF_same : ∀ (fs : Fields) (name : String) (v : Val), fs.declares name = true →
    (fs.setF name v).get name = some v
  | .nil, _, _, h => by simp [Fields.declares] at h
  | .atom k a r, name, v, h => by
    by_cases h1 : k = name
    · simp [Fields.setF, h1]
    · simp [Fields.declares, h1] at h
      simp [Fields.setF, Fields.get, h1, get_setF_same r name v h]
  | .grp k g r, name, v, h => by
    by_cases h1 : k = name
    · simp [Fields.setF, h1]
    · simp [Fields.declares, h1] at h
      simp [Fields.setF, Fields.get, h1, get_setF_same r name v h]

/-- A group that does not declare `name` does not acquire it (no `super().__setattr__`). -/
theorem get_setF_undeclared : ∀ (fs : Fields) (name : String) (v : Val), fs.declares name = false →
    (fs.setF name v).get name = none
  | .nil, _, _, _ => rfl
  | .atom k a r, name, v, h => by
    simp only [Fields.declares, Bool.or_eq_false_iff, beq_eq_false_iff_ne, ne_eq] at h
    simp [Fields.setF, Fields.get, h.1, get_setF_undeclared r name v h.2]
  | .grp k g r, name, v, h => by
    simp only [Fields.declares, Bool.or_eq_false_iff, beq_eq_false_iff_ne, ne_eq] at h
    simp [Fields.setF, Fields.get, h.1, get_setF_undeclared r name v h.2]

/-- The same three facts for step (1) alone (uninitialised group). -/
theorem get_assign_other : ∀ (fs : Fields) (name k : String) (v : Val), k ≠ name →
    (fs.assign name v).get k = fs.get k
  | .nil, _, _, _, _ => rfl
  | .atom k' a r, name, k, v, h => by
    have hn : ¬ name = k := fun e => h e.symm
    by_cases h1 : k' = name
    · subst h1
      simp [Fields.assign, Fields.get, hn, get_assign_other r k' k v h]
    · by_cases h2 : k' = k
      · subst h2
        simp [Fields.assign, Fields.get, h1]
      · simp [Fields.assign, Fields.get, h1, h2, get_assign_other r name k v h]
  | .grp k' g r, name, k, v, h => by
    have hn : ¬ name = k := fun e => h e.symm
    by_cases h1 : k' = name
    · subst h1
      simp [Fields.assign, Fields.get, hn, get_assign_other r k' k v h]
    · by_cases h2 : k' = k
      · subst h2
        simp [Fields.assign, Fields.get, h1]
      · simp [Fields.assign, Fields.get, h1, h2, get_assign_other r name k v h]

theorem get_assign_same : ∀ (fs : Fields) (name : String) (v : Val), fs.declares name = true →
    (fs.assign name v).get name = some v
  | .nil, _, _, h => by simp [Fields.declares] at h
  | .atom k a r, name, v, h => by
    by_cases h1 : k = name
    · simp [Fields.assign, h1]
    · simp [Fields.declares, h1] at h
      simp [Fields.assign, Fields.get, h1, get_assign_same r name v h]
  | .grp k g r, name, v, h => by
    by_cases h1 : k = name
    · simp [Fields.assign, h1]
    · simp [Fields.declares, h1] at h
      simp [Fields.assign, Fields.get, h1, get_assign_same r name v h]

/-- Sub-groups of a fully initialised tree are fully initialised. -/
theorem allInit_get : ∀ (fs : Fields) (k : String) (h : Grp), fs.allInit = true →
    fs.get k = some (.grp h) → h.allInit = true
  | .nil, _, _, _, hg => by simp [Fields.get] at hg
  | .atom k' a r, k, h, hi, hg => by
    by_cases h1 : k' = k
    · simp [Fields.get, h1] at hg
    · simp only [Fields.get, h1, if_false] at hg
      exact allInit_get r k h (by simpa [Fields.allInit] using hi) hg
  | .grp k' g r, k, h, hi, hg => by
    simp only [Fields.allInit, Bool.and_eq_true] at hi
    by_cases h1 : k' = k
    · simp only [Fields.get, h1, if_true, Option.some.injEq, Val.grp.injEq] at hg
      exact hg ▸ hi.1
    · simp only [Fields.get, h1, if_false] at hg
      exact allInit_get r k h hi.2 hg

theorem Grp.allInit_iff (g : Grp) : g.allInit = true ↔ g.init = true ∧ g.fields.allInit = true := by
  cases g; simp [Grp.allInit, Grp.init, Grp.fields]

theorem Grp.set_init (g : Grp) (hi : g.init = true) (name : String) (v : Val) :
    g.set name v = .mk true (g.fields.setF name v) := by
  cases g with
  | mk i fs => simp only [Grp.init] at hi; subst hi; simp [Grp.set, Grp.fields]

theorem allInit_cons (k : String) (v : Val) (r : Fields) :
    (Fields.cons k v r).allInit = (v.allInit && r.allInit) := by
  cases v <;> simp [Fields.cons, Fields.allInit, Val.allInit]

mutual
  /-- An assignment of a fully initialised value keeps the tree fully initialised. -/
  theorem set_allInit : ∀ (g : Grp) (name : String) (v : Val),
      g.allInit = true → v.allInit = true → (g.set name v).allInit = true
    | .mk init fs, name, v, hg, hv => by
      simp only [Grp.allInit, Bool.and_eq_true] at hg
      obtain ⟨h1, h2⟩ := hg
      subst h1
      simp [Grp.set, Grp.allInit, setF_allInit fs name v h2 hv]
  theorem setF_allInit : ∀ (fs : Fields) (name : String) (v : Val),
      fs.allInit = true → v.allInit = true → (fs.setF name v).allInit = true
    | .nil, _, _, _, _ => rfl
    | .atom k a r, name, v, hf, hv => by
      simp only [Fields.allInit] at hf
      by_cases h1 : k = name
      · simp [Fields.setF, h1, allInit_cons, hv, setF_allInit r name v hf hv]
      · simp [Fields.setF, h1, Fields.allInit, setF_allInit r name v hf hv]
    | .grp k g r, name, v, hf, hv => by
      simp only [Fields.allInit, Bool.and_eq_true] at hf
      by_cases h1 : k = name
      · simp [Fields.setF, h1, allInit_cons, hv, setF_allInit r name v hf.2 hv]
      · simp [Fields.setF, h1, Fields.allInit, set_allInit g name v hf.1 hv, setF_allInit r name v hf.2 hv]
end

/-- An assignment never changes which names a group declares. -/
theorem declares_setF : ∀ (fs : Fields) (name k : String) (v : Val),
    (fs.setF name v).declares k = fs.declares k
  | .nil, _, _, _ => rfl
  | .atom k' a r, name, k, v => by
    by_cases h1 : k' = name <;> simp [Fields.setF, h1, Fields.declares, declares_setF r name k v]
  | .grp k' g r, name, k, v => by
    by_cases h1 : k' = name <;> simp [Fields.setF, h1, Fields.declares, declares_setF r name k v]

theorem declares_assign : ∀ (fs : Fields) (name k : String) (v : Val),
    (fs.assign name v).declares k = fs.declares k
  | .nil, _, _, _ => rfl
  | .atom k' a r, name, k, v => by
    by_cases h1 : k' = name <;> simp [Fields.assign, h1, Fields.declares, declares_assign r name k v]
  | .grp k' g r, name, k, v => by
    by_cases h1 : k' = name <;> simp [Fields.assign, h1, Fields.declares, declares_assign r name k v]

theorem declares_set (g : Grp) (name k : String) (v : Val) :
    (g.set name v).declares k = g.declares k := by
  cases g with
  | mk i fs => cases i <;> simp [Grp.set, Grp.declares, Grp.fields, declares_setF, declares_assign]

theorem Grp.set_keeps_init (g : Grp) (name : String) (v : Val) : (g.set name v).init = g.init := by
  cases g; simp [Grp.set, Grp.init]

/-- Another plain field of the same group keeps its value. -/
theorem get_set_other_atom (g : Grp) (hi : g.init = true) (name k a : String) (v : Val) (hk : k ≠ name)
    (hg : g.get k = some (.atom a)) : (g.set name v).get k = some (.atom a) := by
  rw [Grp.set_init g hi]
  simp only [Grp.get, Grp.fields] at hg ⊢
  rw [get_setF_other _ _ _ _ hk, hg]; rfl

/-- **Frame + propagation along any path that avoids the assigned name.**
    For a fully initialised tree and every path `q` of field names none of which is `name`:
    what is found at `q` after `set name v` is what was found before, with the same `set` applied to it
    if it is a group (atoms — all other fields at every depth — are unchanged; no field appears or vanishes). -/
theorem at_set_other : ∀ (q : List String) (g : Grp) (name : String) (v : Val),
    g.allInit = true → name ∉ q →
    (g.set name v).at q = (g.at q).map (Val.set name v)
  | [], g, name, v, _, _ => by simp [Grp.at, Val.set]
  | k :: p, g, name, v, hi, hq => by
    have hk : k ≠ name := fun e => hq (by simp [e])
    have hp : name ∉ p := fun e => hq (by simp [e])
    obtain ⟨hi1, hi2⟩ := (Grp.allInit_iff g).1 hi
    have hget : (g.set name v).get k = (g.get k).map (Val.set name v) := by
      rw [Grp.set_init g hi1]; exact get_setF_other g.fields name k v hk
    simp only [Grp.at, hget]
    cases hgk : g.get k with
    | none => simp
    | some x =>
      cases x with
      | atom a => simp [Val.set]
      | grp h =>
        have hh : h.allInit = true := allInit_get g.fields k h hi2 hgk
        simpa [Val.set] using at_set_other p h name v hh hp

end CR.Params

namespace CR.Params

/-- Inner step of `setAt_at` along the field list (the induction hypothesis for the rest of the path is `ih`). -/
theorem setAtF_spec (name : String) (v : Val) (k : String) (p : List String)
    (ih : ∀ g h : Grp, g.at p = some (.grp h) →
      ∃ g', g.setAt name v p = some g' ∧ g'.at p = some (.grp (h.set name v))) :
    ∀ (fs : Fields) (w h : Grp), fs.get k = some (.grp w) → w.at p = some (.grp h) →
      ∃ fs' w', fs.setAtF name v k p = some fs' ∧ fs'.get k = some (.grp w') ∧
        w'.at p = some (.grp (h.set name v))
  | .nil, _, _, hg, _ => by simp [Fields.get] at hg
  | .atom k' a r, w, h, hg, hw => by
    by_cases h1 : k' = k
    · simp [Fields.get, h1] at hg
    · simp only [Fields.get, h1, if_false] at hg
      obtain ⟨fs', w', e1, e2, e3⟩ := setAtF_spec name v k p ih r w h hg hw
      exact ⟨.atom k' a fs', w', by simp [Fields.setAtF, h1, e1], by simp [Fields.get, h1, e2], e3⟩
  | .grp k' g r, w, h, hg, hw => by
    by_cases h1 : k' = k
    · simp only [Fields.get, h1, if_true, Option.some.injEq, Val.grp.injEq] at hg
      subst hg
      obtain ⟨g', e1, e2⟩ := ih g h hw
      exact ⟨.grp k' g' r, g', by simp [Fields.setAtF, h1, e1], by simp [Fields.get, h1], e2⟩
    · simp only [Fields.get, h1, if_false] at hg
      obtain ⟨fs', w', e1, e2, e3⟩ := setAtF_spec name v k p ih r w h hg hw
      exact ⟨.grp k' g fs', w', by simp [Fields.setAtF, h1, e1], by simp [Fields.get, h1, e2], e3⟩

/-- The path-addressed assignment `setattr(follow(root, p), name, v)` is `set name v` on the group the path
    leads to (and it succeeds whenever the path leads to a group). -/
theorem setAt_at : ∀ (p : List String) (g h : Grp) (name : String) (v : Val), g.at p = some (.grp h) →
    ∃ g', g.setAt name v p = some g' ∧ g'.at p = some (.grp (h.set name v))
  | [], g, h, name, v, hat => by
    simp only [Grp.at, Option.some.injEq, Val.grp.injEq] at hat
    subst hat
    cases g with
    | mk i fs => exact ⟨(Grp.mk i fs).set name v, by simp [Grp.setAt], by simp [Grp.at]⟩
  | k :: p, .mk i fs, h, name, v, hat => by
    cases hgk : fs.get k with
    | none => simp [Grp.at, Grp.get, Grp.fields, hgk] at hat
    | some x =>
      cases x with
      | atom a =>
        simp only [Grp.at, Grp.get, Grp.fields, hgk] at hat
        split at hat <;> simp at hat
      | grp w =>
        simp only [Grp.at, Grp.get, Grp.fields, hgk] at hat
        obtain ⟨fs', w', e1, e2, e3⟩ :=
          setAtF_spec name v k p (fun g h hh => setAt_at p g h name v hh) fs w h hgk hat
        exact ⟨.mk i fs', by simp [Grp.setAt, e1], by simp [Grp.at, Grp.get, Grp.fields, e2, e3]⟩

/-- Every nested group, at any depth, that declares `name` holds the assigned value afterwards. -/
theorem at_set_declared (g h : Grp) (p : List String) (name : String) (v : Val)
    (hi : g.allInit = true) (hp : name ∉ p) (hat : g.at p = some (.grp h)) (hd : h.declares name = true) :
    (g.set name v).at (p ++ [name]) = some v := by
  induction p generalizing g with
  | nil =>
    simp only [Grp.at, Option.some.injEq, Val.grp.injEq] at hat
    subst hat
    obtain ⟨hi1, _⟩ := (Grp.allInit_iff g).1 hi
    have : (g.set name v).get name = some v := by
      rw [Grp.set_init g hi1]; exact get_setF_same g.fields name v hd
    cases v with
    | atom a => simp [Grp.at, this]
    | grp w => simp [Grp.at, this]
  | cons k p ih =>
    have hk : k ≠ name := fun e => hp (by simp [e])
    have hp' : name ∉ p := fun e => hp (by simp [e])
    obtain ⟨hi1, hi2⟩ := (Grp.allInit_iff g).1 hi
    have hget : (g.set name v).get k = (g.get k).map (Val.set name v) := by
      rw [Grp.set_init g hi1]; exact get_setF_other g.fields name k v hk
    cases hgk : g.get k with
    | none => simp [Grp.at, hgk] at hat
    | some x =>
      cases x with
      | atom a =>
        simp only [Grp.at, hgk] at hat
        split at hat <;> simp at hat
      | grp w =>
        simp only [Grp.at, hgk] at hat
        have hw : w.allInit = true := allInit_get g.fields k w hi2 hgk
        have := ih w hw hp' hat
        simpa [Grp.at, hget, hgk, Val.set] using this

/-- A nested group that does not declare `name` does not acquire it. -/
theorem at_set_undeclared (g h : Grp) (p : List String) (name : String) (v : Val)
    (hi : g.allInit = true) (hp : name ∉ p) (hat : g.at p = some (.grp h)) (hd : h.declares name = false) :
    (g.set name v).at (p ++ [name]) = none := by
  induction p generalizing g with
  | nil =>
    simp only [Grp.at, Option.some.injEq, Val.grp.injEq] at hat
    subst hat
    obtain ⟨hi1, _⟩ := (Grp.allInit_iff g).1 hi
    have : (g.set name v).get name = none := by
      rw [Grp.set_init g hi1]; exact get_setF_undeclared g.fields name v hd
    simp [Grp.at, this]
  | cons k p ih =>
    have hk : k ≠ name := fun e => hp (by simp [e])
    have hp' : name ∉ p := fun e => hp (by simp [e])
    obtain ⟨hi1, hi2⟩ := (Grp.allInit_iff g).1 hi
    have hget : (g.set name v).get k = (g.get k).map (Val.set name v) := by
      rw [Grp.set_init g hi1]; exact get_setF_other g.fields name k v hk
    cases hgk : g.get k with
    | none => simp [Grp.at, hgk] at hat
    | some x =>
      cases x with
      | atom a =>
        simp only [Grp.at, hgk] at hat
        split at hat <;> simp at hat
      | grp w =>
        simp only [Grp.at, hgk] at hat
        have hw : w.allInit = true := allInit_get g.fields k w hi2 hgk
        have := ih w hw hp' hat
        simpa [Grp.at, hget, hgk, Val.set] using this

/-- A path with one more step: what the group at the path holds under the last key. -/
theorem at_snoc : ∀ (p : List String) (g : Grp) (k : String),
    g.at (p ++ [k]) = match g.at p with
      | some (.grp h) => h.get k
      | _ => none
  | [], g, k => by
    simp only [List.nil_append, Grp.at]
    cases hg : g.get k with
    | none => rfl
    | some x => cases x <;> simp
  | k' :: p, g, k => by
    simp only [List.cons_append, Grp.at]
    cases hg : g.get k' with
    | none => rfl
    | some x =>
      cases x with
      | atom a => by_cases hp : p.isEmpty = true <;> simp [hp]
      | grp h => simpa using at_snoc p h k

/-- If something is found under `p ++ [k]`, the path `p` leads to a group that declares `k`. -/
theorem at_snoc_some (p : List String) (g : Grp) (k : String) (x : Val) (h : g.at (p ++ [k]) = some x) :
    ∃ w, g.at p = some (.grp w) ∧ w.declares k = true := by
  rw [at_snoc] at h
  cases hp : g.at p with
  | none => simp [hp] at h
  | some y =>
    cases y with
    | atom a => simp [hp] at h
    | grp w =>
      simp only [hp] at h
      exact ⟨w, rfl, (declares_iff_get w.fields k).2 (by simp [Grp.get] at h; simp [h])⟩

/-- After `g.time_begin = tb; g.time_end = te` on a fully initialised tree: reads below a path that avoids both
    names give the old plain value for every other field, and `tb` / `te` wherever the window was declared. -/
theorem window_reads (g : Grp) (hi : g.allInit = true) (p : List String) (atb ate : String)
    (hp1 : "time_begin" ∉ p) (hp2 : "time_end" ∉ p) :
    let g' := (g.set "time_begin" (.atom atb)).set "time_end" (.atom ate)
    (∀ k a, k ≠ "time_begin" → k ≠ "time_end" → (g'.at (p ++ [k]) = some (.atom a) ↔ g.at (p ++ [k]) = some (.atom a))) ∧
    (∀ x, g.at (p ++ ["time_begin"]) = some x → g'.at (p ++ ["time_begin"]) = some (.atom atb)) ∧
    (∀ x, g.at (p ++ ["time_end"]) = some x → g'.at (p ++ ["time_end"]) = some (.atom ate)) := by
  intro g'
  have hi' : (g.set "time_begin" (.atom atb)).allInit = true := set_allInit g _ _ hi (by simp [Val.allInit])
  refine ⟨fun k a h1 h2 => ?_, fun x hx => ?_, fun x hx => ?_⟩
  · have hq1 : "time_begin" ∉ p ++ [k] := by
      simp only [List.mem_append, List.mem_singleton, not_or]; exact ⟨hp1, fun e => h1 e.symm⟩
    have hq2 : "time_end" ∉ p ++ [k] := by
      simp only [List.mem_append, List.mem_singleton, not_or]; exact ⟨hp2, fun e => h2 e.symm⟩
    show ((g.set "time_begin" (.atom atb)).set "time_end" (.atom ate)).at (p ++ [k]) = _ ↔ _
    rw [at_set_other _ _ _ _ hi' hq2, at_set_other _ _ _ _ hi hq1]
    cases hg : g.at (p ++ [k]) with
    | none => simp
    | some y => cases y <;> simp [Val.set]
  · obtain ⟨w, hw, hd⟩ := at_snoc_some p g _ x hx
    have h1 := at_set_declared g w p "time_begin" (.atom atb) hi hp1 hw hd
    have hq : "time_end" ∉ p ++ ["time_begin"] := by
      simp only [List.mem_append, List.mem_singleton, not_or]; exact ⟨hp2, by decide⟩
    show ((g.set "time_begin" (.atom atb)).set "time_end" (.atom ate)).at _ = _
    rw [at_set_other _ _ _ _ hi' hq, h1]; rfl
  · obtain ⟨w, hw, hd⟩ := at_snoc_some p g _ x hx
    have hw' : (g.set "time_begin" (.atom atb)).at p = some (.grp (w.set "time_begin" (.atom atb))) := by
      rw [at_set_other p g _ _ hi hp1, hw]; rfl
    exact at_set_declared _ _ p "time_end" (.atom ate) hi' hp2 hw' (by rw [declares_set]; exact hd)

/-- Under `okFor` (or when nothing stores the value) Python's assignment is the tree function. -/
theorem setPy_ok (g : Grp) (name : String) (v : Val) (h : v.okFor name = true) :
    g.setPy name v = .ok (g.set name v) := by
  simp [Grp.setPy, h]

/-- One re-assignment of `__post_init__` on a fully initialised tree that holds an atom under `name`. -/
theorem reassign_ok (g : Grp) (name a : String) (hg : g.get name = some (.atom a)) :
    g.reassign name = .ok (g.set name (.atom a)) := by
  simp [Grp.reassign, hg]

end CR.Params
