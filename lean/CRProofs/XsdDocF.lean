/-
  CRProofs.XsdDocF — C03: the `@ref` values of the document tree, computed from the data (`docRefs`), so that the keyref
  clause can be stated on the scenario data: every written reference is the id of a keyed element.
-/
import CRProofs.XsdDocE

namespace CR.C03
open CR.Xsd CR.XmlNum CR.XmlW

/-! ### references per object -/

/-! ### `refsOf` on the encoders -/

theorem refsOfList_append (k : String) : ∀ (a b : List Xml), refsOfList k (a ++ b) = refsOfList k a ++ refsOfList k b
  | [], b => rfl
  | x :: xs, b => by simp [refsOfList, refsOfList_append k xs b, List.append_assoc]

theorem refsOfList_map {α} (k : String) (f : α → Xml) : ∀ l : List α, refsOfList k (l.map f) = l.flatMap (fun y => refsOf k (f y))
  | [] => rfl
  | y :: ys => by simp [refsOfList, refsOfList_map k f ys]

theorem refsOfList_nil (k : String) : refsOfList k [] = [] := rfl
theorem refsOfList_cons (k : String) (x : Xml) (xs : List Xml) : refsOfList k (x :: xs) = refsOf k x ++ refsOfList k xs := rfl

theorem refs_leaf (n : String) (t : Str) : refsOf "ref" (leaf n t) = [] := by simp [leaf, refsOf, refsOfList]
theorem refs_el (n : String) (kids : List Xml) : refsOf "ref" (el n kids) = refsOfList "ref" kids := by simp [el, refsOf]
theorem refs_id (n : String) (i : Int) (kids : List Xml) :
    refsOf "ref" (.node n (idAttr i) [] kids) = refsOfList "ref" kids := by simp [refsOf, idAttr]
theorem refs_ref (n : String) (i : Int) : refsOf "ref" (refNode n i) = [istr i] := by simp [refNode, refsOf, refsOfList, istr]

theorem refs_refs (n : String) (ids : List Int) : refsOfList "ref" (ids.map (refNode n)) = ids.map istr := by
  induction ids with
  | nil => rfl
  | cons i is ih => simp only [List.map_cons, refsOfList_cons, refs_ref, ih, List.singleton_append]

theorem flatMap_nil' {α β} (l : List α) (f : α → List β) (h : ∀ y, f y = []) : l.flatMap f = [] := by
  induction l with
  | nil => rfl
  | cons y ys ih => simp [List.flatMap_cons, h y, ih]

theorem refs_pointNode (tag : String) (x y : Str) (z : Option Str) : refsOf "ref" (pointNode tag x y z) = [] := by
  cases z <;> simp [pointNode, refsOf, refsOfList, refs_leaf]

theorem refs_pt (p : Nat) (tag : String) (q : Pt) : refsOf "ref" (ptNode p tag q) = [] := refs_pointNode _ _ _ _

theorem refs_shape1 (p : Nat) (dyn : Bool) (s : Shape1) : refsOf "ref" (shape1Node p dyn s) = [] := by
  cases s with
  | rect l w o cx cy =>
    simp only [shape1Node, rectangleNode]
    split <;> split <;> simp [refsOf, refsOfList, refs_leaf, refs_pointNode]
  | circ r cx cy =>
    simp only [shape1Node, circleNode]
    split <;> simp [refsOf, refsOfList, refs_leaf, refs_pointNode]
  | poly vs =>
    simp only [shape1Node, refs_el, refsOfList_map]
    exact flatMap_nil' _ _ (fun _ => refs_pt _ _ _)

theorem refs_shapes (p : Nat) (dyn : Bool) (s : List Shape1) : refsOfList "ref" (shapeNodes p dyn s) = [] := by
  simp only [shapeNodes, refsOfList_map]; exact flatMap_nil' _ _ (fun _ => refs_shape1 _ _ _)

theorem refs_valKids (p : Nat) (v : Val) : refsOfList "ref" (valKids p v) = [] := by
  cases v <;> simp [valKids, refsOfList, refs_leaf]

theorem refs_timeKids (t : TimeV) : refsOfList "ref" (timeKids t) = [] := by
  cases t <;> simp [timeKids, refsOfList, refs_leaf]

theorem refs_pos (p : Nat) (q : CR.XmlW.Pos) : refsOf "ref" (posNode p q) = (posRefs q).map istr := by
  cases q with
  | point q => simp [posNode, refs_el, refsOfList, refs_pt, posRefs]
  | shapes s => simp [posNode, refs_el, refs_shapes, posRefs]
  | lanelets ids => simp [posNode, refs_el, refs_refs, posRefs]

theorem refs_attr (p : Nat) (a : Attr) : refsOf "ref" (attrNode p a) = (attrRefs a).map istr := by
  cases a with
  | position q => simp [attrNode, refs_pos, attrRefs]
  | time t => simp [attrNode, refs_el, refs_timeKids, attrRefs]
  | value n v => simp [attrNode, refs_el, refs_valKids, attrRefs]

theorem refs_state (p : Nat) (tag : String) (st : List Attr) : refsOf "ref" (stateNode p tag st) = (stateRefs st).map istr := by
  simp only [stateNode, refs_el, refsOfList_map, stateRefs, List.map_flatMap, refs_attr]

theorem refs_optB (n : String) (o : Option Bool) : refsOfList "ref" (optB n o) = [] := by
  cases o <;> simp [optB, refsOfList, refs_leaf]

theorem refs_optLeaf (n : String) (o : Option String) : refsOfList "ref" (optLeaf n o) = [] := by
  cases o <;> simp [optLeaf, refsOfList, refs_leaf]

theorem refs_signal (tag : String) (s : Signal) : refsOf "ref" (signalNode tag s) = [] := by
  simp [signalNode, refs_el, refsOfList_append, refsOfList, refs_optB, refs_leaf]

theorem refs_occ (p : Nat) (o : Occ) : refsOf "ref" (occNode p o) = [] := by
  simp [occNode, refs_el, refsOfList, refs_shapes, refs_timeKids]

theorem refs_occSet (p : Nat) (os : List Occ) : refsOf "ref" (occSetNode p os) = [] := by
  simp only [occSetNode, refs_el, refsOfList_map]; exact flatMap_nil' _ _ (fun _ => refs_occ _ _)

theorem refs_traj (p : Nat) (sts : List (List Attr)) : refsOf "ref" (trajNode p sts) = (sts.flatMap stateRefs).map istr := by
  simp only [trajNode, refs_el, refsOfList_map, refs_state, List.map_flatMap]

theorem refs_static (p : Nat) (o : StaticObs) : refsOf "ref" (staticNode p o) = (stateRefs o.init).map istr := by
  simp [staticNode, refs_id, refsOfList, refs_leaf, refs_el, refs_shapes, refs_state]

theorem refs_envObs (p : Nat) (o : EnvObs) : refsOf "ref" (envObsNode p o) = [] := by
  simp [envObsNode, refs_id, refsOfList, refs_leaf, refs_el, refs_shapes]

theorem refs_phantom (p : Nat) (o : PhantomObs) : refsOf "ref" (phantomNode p o) = [] := by
  cases h : o.occ <;> simp [phantomNode, optOccSetNodes, h, refs_id, refsOfList, refs_occSet]

theorem refs_dyn (p : Nat) (o : DynObs) : refsOf "ref" (dynNode p o) = (stateRefs o.init ++ predRefs o.pred).map istr := by
  have hs : refsOfList "ref" (seriesNodes o.series) = [] := by
    unfold seriesNodes
    split
    · rfl
    · simp only [refsOfList, refs_el, refsOfList_map, List.append_nil]; exact flatMap_nil' _ _ (fun _ => refs_signal _ _)
  have h0 : refsOfList "ref" (sig0Nodes o.sig0) = [] := by
    cases o.sig0 <;> simp [sig0Nodes, refsOfList, refs_signal]
  have hp : refsOfList "ref" (predNodes p o.pred) = (predRefs o.pred).map istr := by
    cases o.pred <;> simp [predNodes, refsOfList, refs_traj, refs_occSet, predRefs]
  simp only [dynNode, refs_id, refsOfList_append, refsOfList_cons, refsOfList_nil, refs_leaf, refs_el, refs_shapes, refs_state,
    hs, h0, hp, List.map_append, List.append_nil, List.nil_append]

theorem refs_stopLine (p : Nat) (s : StopLineD) : refsOf "ref" (stopLineNode p s) = (stopRefs s).map istr := by
  have hp : refsOfList "ref" (stopPtNodes p s.pts) = [] := by
    cases h : s.pts with
    | none => rfl
    | some ab => obtain ⟨a, b⟩ := ab; simp [stopPtNodes, refsOfList, refs_pt]
  simp only [stopLineNode, refs_el, refsOfList_append, hp, refs_optLeaf, refs_refs, stopRefs, List.map_append, List.nil_append]

theorem refs_adj (tag : String) (o : Option (Int × Bool)) : refsOfList "ref" (adjNode tag o) = (optId o).map istr := by
  cases o with
  | none => rfl
  | some t => obtain ⟨i, s⟩ := t; simp [adjNode, refsOfList, refsOf, optId, istr]

theorem refs_enumLeaves (n : String) (vs : List String) : refsOfList "ref" (vs.map (fun v => leaf n v.toList)) = [] := by
  rw [refsOfList_map]; exact flatMap_nil' _ _ (fun _ => refs_leaf _ _)

theorem refs_lanelet (p : Nat) (l : LaneletD) : refsOf "ref" (laneletNode p l) = (laneletRefs l).map istr := by
  have hb : ∀ tag pts lm, refsOf "ref" (boundNode p tag pts lm) = [] := by
    intro tag pts lm
    simp only [boundNode, refs_el, refsOfList_append, refs_optLeaf, refsOfList_map, List.append_nil]
    exact flatMap_nil' _ _ (fun _ => refs_pt _ _ _)
  have hs : refsOfList "ref" (optStopNodes p l.stop) = (optStopRefs l.stop).map istr := by
    cases l.stop <;> simp [optStopNodes, optStopRefs, refsOfList, refs_stopLine]
  simp only [laneletNode, refs_id, refsOfList_append, refsOfList_cons, refsOfList_nil, hb, refs_refs, refs_adj, hs,
    refs_enumLeaves, laneletRefs, List.map_append, List.append_nil, List.nil_append, List.append_assoc]

theorem refs_sign (p : Nat) (s : SignD) : refsOf "ref" (signNode p s) = [] := by
  have he : refsOfList "ref" (s.elements.map signElementNode) = [] := by
    rw [refsOfList_map]; apply flatMap_nil'; intro e
    simp [signElementNode, refs_el, refsOfList, refs_leaf, refs_enumLeaves]
  have hp : refsOfList "ref" (optPosNodes p s.pos) = [] := by
    cases s.pos <;> simp [optPosNodes, refsOfList, refs_el, refs_pt]
  simp only [signNode, refs_id, refsOfList_append, he, hp, refs_optB, List.append_nil]

theorem refs_light (p : Nat) (l : LightD) : refsOf "ref" (lightNode p l) = [] := by
  have hc : refsOfList "ref" (optCycleNodes l.cycle) = [] := by
    cases h : l.cycle with
    | none => rfl
    | some c =>
      obtain ⟨es, off⟩ := c
      have ho : refsOfList "ref" (offsetNodes off) = [] := by
        cases off with
        | none => rfl
        | some v => simp only [offsetNodes]; split <;> simp [refsOfList, refs_leaf]
      have hes : refsOfList "ref" (es.map cycleElementNode) = [] := by
        rw [refsOfList_map]; apply flatMap_nil'; intro e; simp [cycleElementNode, refs_el, refsOfList, refs_leaf]
      simp [optCycleNodes, cycleNode, refsOfList, refs_el, refsOfList_append, ho, hes]
  have hp : refsOfList "ref" (optPosNodes p l.pos) = [] := by
    cases l.pos <;> simp [optPosNodes, refsOfList, refs_el, refs_pt]
  simp only [lightNode, refs_id, refsOfList_append, hc, hp, refs_optLeaf, refs_optB, List.append_nil]

theorem refs_incoming (i : IncomingD) : refsOf "ref" (incomingNode i) = (incomingRefs i).map istr := by
  have hl : refsOfList "ref" (optRefNodes "isLeftOf" i.leftOf) = (optInt i.leftOf).map istr := by
    cases i.leftOf <;> simp [optRefNodes, optInt, refsOfList, refs_ref]
  simp only [incomingNode, refs_id, refsOfList_append, refs_refs, hl, incomingRefs, List.map_append, List.append_assoc]

theorem refs_intersection (x : IntersectionD) : refsOf "ref" (intersectionNode x) = (intersectionRefs x).map istr := by
  have hc : refsOfList "ref" (crossingNodes x.crossings) = x.crossings.map istr := by
    unfold crossingNodes
    split
    · rename_i h; have : x.crossings = [] := by simpa using h
      rw [this]; rfl
    · simp [refsOfList, refs_el, refs_refs]
  simp only [intersectionNode, refs_id, refsOfList_append, refsOfList_map, refs_incoming, hc, intersectionRefs, List.map_append,
    List.map_flatMap]

theorem refs_problem (p : Nat) (q : ProblemD) : refsOf "ref" (problemNode p q) = (problemRefs q).map istr := by
  simp only [problemNode, refs_id, refsOfList_cons, refsOfList_map, refs_state, problemRefs, List.map_append, List.map_flatMap]

theorem refs_location (l : LocationD) : refsOf "ref" (locationNode l) = [] := by
  have hg : refsOfList "ref" (optGeoNodes l.geo) = [] := by
    cases l.geo <;> simp [optGeoNodes, geoNode, refsOfList, refs_el, refs_leaf]
  have he : refsOfList "ref" (optEnvNodes l.env) = [] := by
    cases l.env <;> simp [optEnvNodes, envNode, refsOfList, refs_el, refs_leaf]
  simp [locationNode, refs_el, refsOfList_append, refsOfList, refs_leaf, hg, he]

theorem refs_tags (tags : List String) : refsOf "ref" (tagsNode tags) = [] := by
  simp only [tagsNode, refs_el, refsOfList_map]; exact flatMap_nil' _ _ (fun _ => refs_leaf _ _)

/-- the `@ref` values below the root are exactly the written forms of `docRefs d` -/
theorem doc_refs (d : DocD) : refsOfList "ref" (docNode d).kids = (docRefs d).map istr := by
  simp only [docNode, Xml.kids, docFamilies, List.flatten_cons, List.flatten_nil, List.append_nil, refsOfList_append,
    refsOfList_cons, refsOfList_nil, refsOfList_map, refs_location, refs_tags, refs_lanelet, refs_sign, refs_light,
    refs_intersection, refs_static, refs_dyn, refs_phantom, refs_envObs, refs_problem, docRefs, List.map_append, List.map_flatMap,
    List.nil_append, List.append_nil]
  simp [flatMap_nil']

/-- **valid_doc on the data**: a schema-expressible scenario whose ids are pairwise different and whose references all point
    at one of these ids is written as a valid document -/
theorem valid_doc_data (d : DocD) (h : DocOk d) (hunique : (docIds d).Nodup) (hresolve : ∀ r ∈ docRefs d, r ∈ docIds d) :
    validDoc schema (docNode d) = true := by
  refine valid_doc d h hunique ?_
  intro v hv
  rw [doc_refs] at hv
  obtain ⟨r, hr, rfl⟩ := List.mem_map.mp hv
  exact ⟨r, hresolve r hr, by simp [istr, String.toList_ofList, intValue_intStr]⟩

end CR.C03
