import CRProofs.XsdEnum
namespace CR.C03
set_option maxRecDepth 100000 in
set_option maxHeartbeats 1000000 in
theorem signs_zam_3 : (zamSigns.drop 120).take 60 = (gerSigns.drop 120).take 60 := by decide
end CR.C03
