import CRModel.TrafficLight
namespace CR.TL

theorem total_cons (e : Elem) (es : List Elem) : total (e :: es) = e.2 + total es := by
  simp [total, durations, sumInt]

theorem total_pos {es : List Elem} (h : Admissible es) : 0 < total es := by
  obtain ⟨hne, hpos⟩ := h
  cases es with
  | nil => exact absurd rfl hne
  | cons e rest =>
    have h1 : 0 < e.2 := hpos e (by simp)
    have h2 : 0 ≤ total rest := by
      clear hne h1
      induction rest with
      | nil => simp [total, durations, sumInt]
      | cons a r ih =>
        have ha : 0 < a.2 := hpos a (by simp)
        have := ih (by intro x hx; exact hpos x (by simp at hx ⊢; rcases hx with h | h <;> simp [h]))
        rw [total_cons]; omega
    rw [total_cons]; omega

/-- Last entry of the shifted cumulative sums. -/
theorem last_cumsum (off : Int) : ∀ (ds : List Int) (a : Int),
    ((a + off) :: (cumsumFrom a ds).map (· + off)).getLast (by simp) = a + sumInt ds + off
  | [], a => by simp [cumsumFrom, sumInt]
  | d :: ds, a => by
    have := last_cumsum off ds (a + d)
    simp only [cumsumFrom, List.map_cons, sumInt] at this ⊢
    rw [List.getLast_cons (by simp)]
    rw [this]; omega

theorem pyGet_neg_one {α : Type} (l : List α) (h : l ≠ []) : pyGet? l (-1) = some (l.getLast h) := by
  unfold pyGet?
  have hl : 0 < l.length := List.length_pos_iff.mpr h
  simp only [show ¬ (0 : Int) ≤ -1 by omega, if_false]
  have : (-(-1 : Int)).toNat = 1 := by decide
  rw [this]
  simp only [show 1 ≤ l.length from hl, if_true]
  rw [List.getLast_eq_getElem]
  simp

theorem init_last (es : List Elem) (off : Int) :
    pyGet? (initSteps es off) (-1) = some (total es + off) := by
  unfold initSteps
  rw [pyGet_neg_one _ (by simp)]
  have := last_cumsum off (durations es) 0
  simp only [Int.zero_add] at this
  unfold cumsum total
  rw [this]

/-- The argmax walk over the shifted cumulative sums finds the element the specification names. -/
theorem argmax_spec (off k : Int) : ∀ (es : List Elem) (acc : Int) (i : Nat),
    (∀ e ∈ es, 0 < e.2) → acc ≤ k → k < acc + total es →
    ∃ j, argmaxLtFrom (k + off) ((cumsumFrom acc (durations es)).map (· + off)) i = some (i + j)
      ∧ j < es.length ∧ (es[j]?).map (·.1) = specAt es (k - acc)
  | [], acc, i, _, h1, h2 => by simp [total, durations, sumInt] at h2; omega
  | (s, d) :: rest, acc, i, hpos, h1, h2 => by
    simp only [durations, List.map_cons, cumsumFrom, argmaxLtFrom, specAt]
    by_cases hk : k < acc + d
    · refine ⟨0, ?_, by simp, ?_⟩
      · simp [show k + off < acc + d + off by omega]
      · simp [show k - acc < d by omega]
    · rw [total_cons] at h2
      obtain ⟨j, hj1, hj2, hj3⟩ := argmax_spec off k rest (acc + d) (i + 1)
        (fun e he => hpos e (by simp [he])) (by omega) (by simp at h2 ⊢; omega)
      refine ⟨j + 1, ?_, by simp; omega, ?_⟩
      · simp only [show ¬ k + off < acc + d + off by omega, if_false]
        simp only [durations] at hj1
        rw [hj1]; congr 1; omega
      · simp only [show ¬ k - acc < d by omega, if_false]
        rw [show k - acc - d = k - (acc + d) by omega, ← hj3]
        simp

theorem stateAt_of_residue (es : List Elem) (off t : Int) (h : Admissible es) :
    stateAt es off t = match specAt es ((t - off) % total es) with
      | some s => .ok s
      | none => .error .index := by
  have hT := total_pos h
  unfold stateAt
  simp only [init_last]
  have hp : total es + off - off = total es := by omega
  simp only [hp, show ¬ total es = 0 by omega, if_false]
  rw [Int.fmod_eq_emod_of_nonneg _ (by omega : (0 : Int) ≤ total es)]
  have hr0 : 0 ≤ (t - off) % total es := Int.emod_nonneg _ (by omega)
  have hr1 : (t - off) % total es < total es := Int.emod_lt_of_pos _ hT
  generalize (t - off) % total es = r at hr0 hr1
  obtain ⟨j, hj1, hj2, hj3⟩ := argmax_spec off r es 0 1 h.2 hr0 (by omega)
  have harg : argmaxLt (r + off) (initSteps es off) = 1 + j := by
    unfold argmaxLt initSteps cumsum
    simp only [argmaxLtFrom, show ¬ r + off < off by omega, if_false, Nat.zero_add]
    rw [hj1]; rfl
  rw [harg]
  have hi : ((1 + j : Nat) : Int) - 1 = (j : Int) := by omega
  rw [hi]
  have hg : pyGet? es (j : Int) = es[j]? := by
    unfold pyGet?; simp
  rw [hg]
  simp only [Int.sub_zero] at hj3
  rw [← hj3]
  have : es[j]? = some es[j] := by simp [hj2]
  rw [this]; simp

end CR.TL
