/-
  CRProofs.DecVal — the "< 10^-d" clause, connected to what the writer does:
  for a plain decimal repr `s`, `float_to_str` yields a plain decimal whose VALUE (`realVal`) differs from the value of `s` by
  less than 10^-d, towards zero; with the contract `FixOk` on the two exponent-notation tables the same holds for every repr,
  and `decimal_to_str` keeps the value.
-/
import CRModel.DecVal
import CRProofs.Decimal
import Mathlib.Data.List.TakeWhile

namespace CR.X

def allDigits (l : List Char) : Prop := ∀ c, c ∈ l → c.isDigit = true

def signChars (neg : Bool) : List Char := if neg then ['-'] else []

/-- `[-]digits` or `[-]digits.digits` with at least one integer digit: what `str(float)` gives outside exponent notation -/
inductive PlainChars : List Char → Prop
  | int (neg : Bool) (ip : List Char) (hne : ip ≠ []) (hi : allDigits ip) : PlainChars (signChars neg ++ ip)
  | frac (neg : Bool) (ip fp : List Char) (hne : ip ≠ []) (hi : allDigits ip) (hf : allDigits fp) :
      PlainChars (signChars neg ++ ip ++ '.' :: fp)

def PlainDec (s : String) : Prop := PlainChars s.toList

theorem digit_range (c : Char) (h : c.isDigit = true) : 48 ≤ c.toNat ∧ c.toNat ≤ 57 := by
  simp only [Char.isDigit, Bool.and_eq_true, decide_eq_true_eq] at h
  obtain ⟨h1, h2⟩ := h
  have a : (48 : UInt32) ≤ c.val := h1
  have b : c.val ≤ (57 : UInt32) := h2
  simp only [Char.toNat]
  constructor
  · exact_mod_cast a
  · exact_mod_cast b

theorem digit_ne (c : Char) (h : c.isDigit = true) : c ≠ '.' ∧ c ≠ '-' ∧ c ≠ 'e' ∧ c ≠ 'E' := by
  have := digit_range c h
  refine ⟨?_, ?_, ?_, ?_⟩ <;> (intro e; subst e; revert this; decide)

theorem allDigits_noDot {l : List Char} (h : allDigits l) : noDot l := fun c hc => (digit_ne c (h c hc)).1

theorem sign_ip_noDot (neg : Bool) {ip : List Char} (h : allDigits ip) : noDot (signChars neg ++ ip) := by
  intro c hc
  simp only [List.mem_append] at hc
  rcases hc with hc | hc
  · cases neg
    · simp [signChars] at hc
    · simp only [signChars, ↓reduceIte, List.mem_singleton] at hc
      subst hc
      decide
  · exact (digit_ne c (h c hc)).1

theorem fracValR_eq (fp : List Char) : fracValR fp = fracVal fp := by
  simp [fracValR, fracVal]

theorem unsignedVal_int {ip : List Char} (h : allDigits ip) : unsignedVal ip = (natOf ip 0 : ℚ) := by
  simp [unsignedVal, splitDot_noDot ip (allDigits_noDot h)]

theorem unsignedVal_frac {ip fp : List Char} (hi : allDigits ip) (hf : allDigits fp) :
    unsignedVal (ip ++ '.' :: fp) = (natOf ip 0 : ℚ) + fracVal fp := by
  simp [unsignedVal, splitDot_append ip fp (allDigits_noDot hi), splitDot_noDot fp (allDigits_noDot hf), fracValR_eq]

theorem decValChars_pos {r : List Char} (h : ∀ t, r ≠ '-' :: t) : decValChars r = unsignedVal r := by
  unfold decValChars
  split
  · next t => exact absurd rfl (h t)
  · rfl

theorem head_digit_ne_minus {ip : List Char} (hne : ip ≠ []) (hi : allDigits ip) (rest : List Char) :
    ∀ t, ip ++ rest ≠ '-' :: t := by
  intro t e
  cases ip with
  | nil => exact hne rfl
  | cons c cs =>
    simp only [List.cons_append, List.cons.injEq] at e
    exact (digit_ne c (hi c (by simp))).2.1 e.1

/-- value of a signed plain decimal -/
theorem decValChars_sign (neg : Bool) {ip : List Char} (hne : ip ≠ []) (hi : allDigits ip) (rest : List Char) :
    decValChars (signChars neg ++ ip ++ rest) = (if neg then -1 else 1) * unsignedVal (ip ++ rest) := by
  cases neg
  · simp only [signChars, Bool.false_eq_true, ↓reduceIte, List.nil_append, one_mul]
    exact decValChars_pos (head_digit_ne_minus hne hi rest)
  · simp [signChars, decValChars]

theorem fracVal_take_close (d : Nat) (fp : List Char) (h : allDigits fp) :
    0 ≤ fracVal fp - fracVal (fp.take d) ∧ fracVal fp - fracVal (fp.take d) < 1 / 10 ^ d := by
  by_cases hd : d ≤ fp.length
  · exact trunc_close d fp h hd
  · have : fp.take d = fp := List.take_of_length_le (by omega)
    rw [this]
    simp

/-- **float_to_str on a plain decimal**: the result is a plain decimal, its value is within 10^-d of the original's, and not
    larger in magnitude (truncation, towards zero) -/
theorem truncChars_val_close (d : Nat) (s : List Char) (h : PlainChars s) :
    PlainChars (truncChars d s) ∧ |decValChars (truncChars d s) - decValChars s| < 1 / 10 ^ d ∧
      |decValChars (truncChars d s)| ≤ |decValChars s| := by
  cases h with
  | int neg ip hne hi =>
    rw [truncChars_integer d _ (sign_ip_noDot neg hi)]
    refine ⟨PlainChars.int neg ip hne hi, ?_, le_refl _⟩
    simp
  | frac neg ip fp hne hi hf =>
    rw [truncChars_decimal d (signChars neg ++ ip) fp (sign_ip_noDot neg hi) (allDigits_noDot hf)]
    have hft : allDigits (fp.take d) := fun c hc => hf c (List.mem_of_mem_take hc)
    refine ⟨PlainChars.frac neg ip (fp.take d) hne hi hft, ?_⟩
    have e1 := decValChars_sign neg hne hi ('.' :: fp)
    have e2 := decValChars_sign neg hne hi ('.' :: fp.take d)
    rw [e1, e2, unsignedVal_frac hi hf, unsignedVal_frac hi hft]
    obtain ⟨c1, c2⟩ := fracVal_take_close d fp hf
    have hA : (0 : ℚ) ≤ (natOf ip 0 : ℚ) := by positivity
    have hF' : (0 : ℚ) ≤ fracVal (fp.take d) := by
      unfold fracVal
      positivity
    cases neg
    · simp only [Bool.false_eq_true, ↓reduceIte, one_mul]
      constructor
      · rw [abs_lt]
        constructor <;> linarith
      · rw [abs_of_nonneg (by linarith), abs_of_nonneg (by linarith)]
        linarith
    · simp only [↓reduceIte, neg_mul, one_mul, abs_neg]
      constructor
      · rw [abs_lt]
        constructor <;> linarith
      · rw [abs_of_nonneg (by linarith), abs_of_nonneg (by linarith)]
        linarith

/-! ## from characters to the strings the codec handles -/

theorem plain_no_exp {s : List Char} (h : PlainChars s) : ∀ c, c ∈ s → c ≠ 'e' ∧ c ≠ 'E' := by
  have hsign : ∀ neg c, c ∈ signChars neg → c ≠ 'e' ∧ c ≠ 'E' := by
    intro neg c hc
    cases neg
    · simp [signChars] at hc
    · simp only [signChars, ↓reduceIte, List.mem_singleton] at hc
      subst hc
      decide
  have hdig : ∀ l, allDigits l → ∀ c, c ∈ l → c ≠ 'e' ∧ c ≠ 'E' := fun l hl c hc => ⟨(digit_ne c (hl c hc)).2.2.1, (digit_ne c (hl c hc)).2.2.2⟩
  cases h with
  | int neg ip hne hi =>
    intro c hc
    simp only [List.mem_append] at hc
    rcases hc with hc | hc
    · exact hsign neg c hc
    · exact hdig ip hi c hc
  | frac neg ip fp hne hi hf =>
    intro c hc
    simp only [List.mem_append, List.mem_cons] at hc
    rcases hc with (hc | hc) | hc | hc
    · exact hsign neg c hc
    · exact hdig ip hi c hc
    · subst hc; decide
    · exact hdig fp hf c hc

theorem splitE_none (s : List Char) (h : ∀ c, c ∈ s → c ≠ 'e' ∧ c ≠ 'E') : splitE s = (s, none) := by
  induction s with
  | nil => rfl
  | cons c cs ih =>
    have hc := h c (by simp)
    have ih' := ih (fun d hd => h d (by simp [hd]))
    simp [splitE, hc.1, hc.2, ih']

theorem realValChars_plain {s : List Char} (h : PlainChars s) : realValChars s = decValChars s := by
  simp [realValChars, splitE_none s (plain_no_exp h)]

theorem plain_contains_e {s : String} (h : PlainDec s) : s.toList.contains 'e' = false ∧ s.toList.contains 'E' = false := by
  have := plain_no_exp h
  constructor
  · cases hc : s.toList.contains 'e'
    · rfl
    · have : 'e' ∈ s.toList := by simpa using hc
      exact absurd rfl (plain_no_exp h 'e' this).1
  · cases hc : s.toList.contains 'E'
    · rfl
    · have : 'E' ∈ s.toList := by simpa using hc
      exact absurd rfl (plain_no_exp h 'E' this).2

/-- **`float_to_str` on a plain decimal repr moves its value by less than 10^-d**, towards zero, and yields a plain decimal -/
theorem floatToStr_plain_close (P : Params) (s : String) (h : PlainDec s) :
    PlainDec (floatToStr P s) ∧ |realVal (floatToStr P s) - realVal s| < 1 / 10 ^ P.d ∧ |realVal (floatToStr P s)| ≤ |realVal s| := by
  have he := (plain_contains_e h).1
  obtain ⟨h1, h2, h3⟩ := truncChars_val_close P.d s.toList h
  have hf : (floatToStr P s).toList = truncChars P.d s.toList := by
    simp only [floatToStr, he, Bool.false_eq_true, ↓reduceIte, String.toList_ofList]
  refine ⟨?_, ?_, ?_⟩
  · show PlainChars (floatToStr P s).toList
    rw [hf]; exact h1
  · simp only [realVal, hf, realValChars_plain h1, realValChars_plain h]
    exact h2
  · simp only [realVal, hf, realValChars_plain h1, realValChars_plain h]
    exact h3

/-- The contract of the two tables the harness supplies for reprs in exponent notation (checked by the harness on every case
    with exact rational arithmetic): `format(x, ".<d>f")` is a plain decimal within 10^-d of x (it rounds to nearest),
    `np.format_float_positional(x, trim="0")` is a plain decimal of the same value.  Scope: the `fix` clause compares TEXT values;
    for |x| ≥ 2^53 `format` prints the exact binary value of the double, which differs from the decimal value of its shortest repr by
    up to half an ulp (≥ 1), so `FixOk` fails for tables containing such reprs and the theorems that assume it say nothing about
    them (the harness tags these cases `fixok-not-applicable:huge`; the float-level oracle judges them: float(text) = x exactly). -/
structure FixOk (P : Params) : Prop where
  fix : ∀ k v, lookupFix k P.fix = some v → PlainDec v ∧ |realVal v - realVal k| < 1 / 10 ^ P.d
  pos : ∀ k v, lookupFix k P.pos = some v → PlainDec v ∧ realVal v = realVal k

/-- a float repr: plain, or in exponent notation -/
def ReprForm (s : String) : Prop := PlainDec s ∨ s.toList.contains 'e' = true

/-- **every real the writer truncates**: for a repr of either form whose exponent form the table covers, the written text is a
    plain decimal whose value is within 10^-d of the original's -/
theorem floatToStr_close (P : Params) (hP : FixOk P) (s : String) (hs : ReprForm s) (hc : FixCovered P s) :
    PlainDec (floatToStr P s) ∧ |realVal (floatToStr P s) - realVal s| < 1 / 10 ^ P.d := by
  rcases hs with h | h
  · exact ⟨(floatToStr_plain_close P s h).1, (floatToStr_plain_close P s h).2.1⟩
  · have hsome := hc h
    cases hl : lookupFix s P.fix with
    | none => rw [hl] at hsome; cases hsome
    | some v =>
      have : floatToStr P s = v := by simp only [floatToStr, h, hl, ↓reduceIte]
      rw [this]
      exact hP.fix s v hl

/-- **every real the writer writes in full** keeps its value -/
theorem decimalToStr_val (P : Params) (hP : FixOk P) (s : String) (hc : PosCovered P s) :
    realVal (decimalToStr P s) = realVal s := by
  cases h : (s.toList.contains 'e' || s.toList.contains 'E')
  · simp only [decimalToStr, h, Bool.false_eq_true, ↓reduceIte]
  · have hsome := hc h
    cases hl : lookupFix s P.pos with
    | none => rw [hl] at hsome; cases hsome
    | some v =>
      have : decimalToStr P s = v := by simp only [decimalToStr, h, hl, ↓reduceIte]
      rw [this]
      exact (hP.pos s v hl).2

/-! ## a decision procedure for `PlainChars` (for concrete examples) -/

def stripSign : List Char → Bool × List Char
  | '-' :: t => (true, t)
  | t => (false, t)

def isPlainB (s : List Char) : Bool :=
  let r := (stripSign s).2
  let ip := r.takeWhile Char.isDigit
  let rest := r.dropWhile Char.isDigit
  !ip.isEmpty && (rest.isEmpty || (rest.head? == some '.' && rest.tail.all Char.isDigit))

theorem stripSign_eq (s : List Char) : s = signChars (stripSign s).1 ++ (stripSign s).2 := by
  unfold stripSign
  split <;> simp [signChars]

theorem isPlainB_sound (s : List Char) (h : isPlainB s = true) : PlainChars s := by
  rw [stripSign_eq s]
  generalize (stripSign s).1 = neg at *
  simp only [isPlainB, Bool.and_eq_true, Bool.not_eq_true', Bool.or_eq_true] at h
  generalize hr : (stripSign s).2 = r at *
  obtain ⟨hne, hrest⟩ := h
  have hsplit : r = r.takeWhile Char.isDigit ++ r.dropWhile Char.isDigit := (List.takeWhile_append_dropWhile).symm
  have hi : allDigits (r.takeWhile Char.isDigit) := fun c hc => List.mem_takeWhile_imp hc
  have hne' : r.takeWhile Char.isDigit ≠ [] := by
    intro e
    rw [e] at hne
    simp at hne
  rcases hrest with hrest | hrest
  · have : r.dropWhile Char.isDigit = [] := by simpa using hrest
    rw [hsplit, this, List.append_nil]
    exact PlainChars.int neg _ hne' hi
  · obtain ⟨hh, ht⟩ := hrest
    cases hd : r.dropWhile Char.isDigit with
    | nil => rw [hd] at hh; simp at hh
    | cons c t =>
      rw [hd] at hh ht
      have hc : c = '.' := by simpa using hh
      subst hc
      have hf : allDigits t := by
        intro c hc
        have := List.all_eq_true.1 ht c (by simpa using hc)
        exact this
      rw [hsplit, hd, ← List.append_assoc]
      exact PlainChars.frac neg _ t hne' hi hf

/-- decidable form of `ReprForm` -/
def reprFormB (s : String) : Bool := isPlainB s.toList || s.toList.contains 'e'

theorem reprFormB_sound (s : String) (h : reprFormB s = true) : ReprForm s := by
  simp only [reprFormB, Bool.or_eq_true] at h
  rcases h with h | h
  · exact Or.inl (isPlainB_sound _ h)
  · exact Or.inr h

theorem fixCovered_plain (P : Params) (s : String) (h : s.toList.contains 'e' = false) : FixCovered P s := by
  intro he
  rw [h] at he
  cases he

theorem posCovered_plain (P : Params) (s : String) (h : (s.toList.contains 'e' || s.toList.contains 'E') = false) : PosCovered P s := by
  intro he
  rw [h] at he
  cases he

end CR.X
