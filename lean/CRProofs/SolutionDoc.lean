/-
  CRProofs.SolutionDoc — helper lemmas for C14, part 2:
    * the decimal-text codec `Codec.py` reads back what it prints on the texts Python writes,
    * a trajectory tag the schema does not declare, at any position, makes the sequence invalid,
    * the benchmark-id attribute at string level: the writer's text is C13's `benchmarkId`, and C13's
      `_parse_benchmark_id` model recovers the tokens the reader core (`decodeSol`) consumes.
-/
import CRProofs.SolutionXml
import CRProofs.SolutionLex
import CRProofs.BenchIdValid
set_option linter.unusedSimpArgs false
namespace CR.Sol

/-! ## the decimal-text codec -/

theorem Codec.py_int (i : Int) : Codec.py.prsInt (Codec.py.fmtInt i) = .ok i := by
  simp [Codec.py]

/-- `Codec.py` reads back what it prints for every solution whose numbers / date are texts of Python's grammar -/
theorem Codec.py_lawfulFor (s : Solution) (hn : ∀ v ∈ numToks s, pyNumL v.toList = true)
    (hd : ∀ d, s.date = some d → pyDateL d.sec.toList = true) : Codec.py.LawfulFor s where
  num := fun v hv => by simp [Codec.py, hn v hv]
  int := Codec.py_int
  date := fun d h => by simp [Codec.py, hd d h]

/-! ## undeclared trajectory tags -/

/-- every child of a matching sequence carries a declared tag -/
theorem matchSeq_declared (lx : Lex) : ∀ (ds : List TrajDecl) (ns : List TrajNode),
    matchSeq lx ds ns = true → ∀ n ∈ ns, (declIndex ds n.tag).isSome = true
  | _, [], _ => by simp
  | [], n :: ns, h => by simp [matchSeq] at h
  | d :: ds, n :: ns, h => by
    rw [matchSeq] at h
    by_cases hb : (n.tag == d.tag) = true
    · simp only [hb, if_true, Bool.and_eq_true] at h
      intro m hm
      simp only [List.mem_cons] at hm
      rcases hm with rfl | hm
      · simp [declIndex, hb]
      · exact matchSeq_declared lx (d :: ds) ns h.2 m hm
    · have hb' : (n.tag == d.tag) = false := by simpa using hb
      simp only [hb', Bool.false_eq_true, if_false] at h
      intro m hm
      have := matchSeq_declared lx ds (n :: ns) h m hm
      cases hx : declIndex ds m.tag with
      | none => simp [hx] at this
      | some i =>
        by_cases hmd : (m.tag == d.tag) = true
        · simp [declIndex, hmd]
        · have hmd' : (m.tag == d.tag) = false := by simpa using hmd
          simp [declIndex, hmd', hx]
termination_by ds ns => ds.length + ns.length

/-! ## the benchmark id as a string (composition with C13) -/

def VModel.toB : VModel → CR.BenchId.VModel
  | .PM => .PM | .ST => .ST | .KS => .KS | .MB => .MB | .KST => .KST
def VType.toB : VType → CR.BenchId.VType
  | .FORD_ESCORT => .FORD_ESCORT | .BMW_320i => .BMW_320i | .VW_VANAGON => .VW_VANAGON | .TRUCK => .TRUCK
def Cost.toB : Cost → CR.BenchId.Cost
  | .JB1 => .JB1 | .SA1 => .SA1 | .WX1 => .WX1 | .SM1 => .SM1 | .SM2 => .SM2 | .SM3 => .SM3 | .MW1 => .MW1 | .TR1 => .TR1

theorem vehicleId_toList (m : VModel) (vt : VType) :
    (vehicleId m vt).toList = CR.BenchId.vehicleId (m.toB, vt.toB) := by
  cases m <;> cases vt <;> decide

theorem costName_toList (k : Cost) : k.name.toList = k.toB.name := by
  cases k <;> decide

/-- C13's view of the (model, type) pairs and the cost functions of a solution -/
def bVehicles (s : Solution) : List (CR.BenchId.VModel × CR.BenchId.VType) := s.pps.map fun p => (p.model.toB, p.vtype.toB)
def bCosts (s : Solution) : List CR.BenchId.Cost := s.pps.map fun p => p.cost.toB

/-- the text the writer stores in `benchmark_id` is C13's `Solution.benchmark_id` -/
theorem benchString_eq (s : Solution) (i : CR.BenchId.Id)
    (hs : s.scen = String.ofList (CR.BenchId.print i)) (hv : s.ver = String.ofList i.version) :
    (benchString (benchOf s)).toList = CR.BenchId.benchmarkId (bVehicles s) (bCosts s) i := by
  have h1 : (s.pps.map fun p => vehicleId p.model p.vtype).map String.toList =
      (bVehicles s).map CR.BenchId.vehicleId := by
    simp only [bVehicles, List.map_map]
    apply List.map_congr_left
    intro p _
    exact vehicleId_toList p.model p.vtype
  have h2 : (s.pps.map fun p => p.cost.name).map String.toList = (bCosts s).map CR.BenchId.Cost.name := by
    simp only [bCosts, List.map_map]
    apply List.map_congr_left
    intro p _
    exact costName_toList p.cost
  simp only [benchString, String.toList_ofList, benchChars, benchOf, CR.BenchId.benchmarkId, h1, h2, hs, hv]

/-- reading the written root element at string level: C13's `_parse_benchmark_id` recovers the vehicle-id and
    cost-id tokens and the scenario id, and the reader core does the rest -/
theorem decodeDoc_written (c : Codec) (cs : List CR.BenchId.Str) (hcs : CR.BenchId.CountriesOk cs)
    {r : CR.BenchId.Raw} (hv : CR.BenchId.Valid cs r) (auto : Option String) (s : Solution)
    (hl : c.LawfulFor s) (h : Admissible c s) (hne : s.pps ≠ [])
    (hscen : s.scen = String.ofList (CR.BenchId.print (CR.BenchId.norm r)))
    (hver : s.ver = String.ofList (CR.BenchId.norm r).version) :
    ∃ root, encodeSol c auto s = .ok root ∧ decodeDoc c cs (toDoc root) = .ok (normSol auto s) := by
  obtain ⟨hgood, hdist, hpos⟩ := h
  refine ⟨_, encodeSol_ok c auto s hgood, ?_⟩
  have hb := benchString_eq s (CR.BenchId.norm r) hscen hver
  have hvs : bVehicles s ≠ [] := by simpa [bVehicles] using hne
  have hks : bCosts s ≠ [] := by simpa [bCosts] using hne
  have hparse := CR.BenchId.parseBenchmarkId_benchmarkId hcs hv (bVehicles s) (bCosts s) hvs hks
  have hvids : ((bVehicles s).map CR.BenchId.vehicleId).map String.ofList =
      s.pps.map fun p => vehicleId p.model p.vtype := by
    simp only [bVehicles, List.map_map]
    apply List.map_congr_left
    intro p _
    simp only [Function.comp, ← vehicleId_toList, String.ofList_toList]
  have hcids : ((bCosts s).map CR.BenchId.Cost.name).map String.ofList = s.pps.map (·.cost.name) := by
    simp only [bCosts, List.map_map]
    apply List.map_congr_left
    intro p _
    simp only [Function.comp, ← costName_toList, String.ofList_toList]
  have hnodes := parseNodes_written c hl.int s.pps (LawfulFor_states hl) hgood
  have hdict := dictOf_distinct _ (distinctIds_map_norm s.pps hdist)
  simp only [decodeDoc, toDoc, parseHeader_written c auto s (LawfulFor_ct hl) hl.date, hb, hparse, hvids, hcids,
    hnodes, mkSolution, hdict, normSol, ← hscen, ← hver]
  cases hct : s.ct with
  | none => rfl
  | some t => simp [hpos t hct]

end CR.Sol
