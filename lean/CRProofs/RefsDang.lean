/-
  CRProofs.RefsDang — "no NEW dangling reference": lemmas for CRProps.C10 that need no hypothesis about dangling
  references in the network the operation starts from.

  `RefL n a` : id `a` occurs in a lanelet-valued relation of `n` (predecessor / successor / adjacency of a lanelet,
               incoming / successor / crossing set of an intersection);
  `RefS n a`, `RefT n a` : `a` occurs in a sign- (light-) valued relation (lanelet references, stop-line references);
  `DangL n a` : `RefL n a` and `a` is not a lanelet of `n`  (likewise `DangS`, `DangT`);
  `NoNewDangling n n'` : every id that dangles in `n'` dangled in `n` already (same kind).
-/
import CRModel.Refs
import CRProofs.Refs

namespace CR.Refs
open scoped List

def RefL (n : Net) (a : Id) : Prop := (∃ l ∈ n.lanelets, a ∈ l.lrefs) ∨ (∃ i ∈ n.inters, a ∈ i.lrefs)
def RefS (n : Net) (a : Id) : Prop := ∃ l ∈ n.lanelets, a ∈ l.signs ++ l.stopS
def RefT (n : Net) (a : Id) : Prop := ∃ l ∈ n.lanelets, a ∈ l.lights ++ l.stopT

def DangL (n : Net) (a : Id) : Prop := RefL n a ∧ a ∉ n.lids
def DangS (n : Net) (a : Id) : Prop := RefS n a ∧ a ∉ n.sids
def DangT (n : Net) (a : Id) : Prop := RefT n a ∧ a ∉ n.tids

structure NoNewDangling (n n' : Net) : Prop where
  lan : ∀ a, DangL n' a → DangL n a
  sign : ∀ a, DangS n' a → DangS n a
  light : ∀ a, DangT n' a → DangT n a

theorem noDangling_iff (n : Net) :
    NoDangling n ↔ (∀ a, ¬ DangL n a) ∧ (∀ a, ¬ DangS n a) ∧ (∀ a, ¬ DangT n a) := by
  constructor
  · rintro ⟨h1, h2, h3, h4⟩
    refine ⟨?_, ?_, ?_⟩
    · rintro a ⟨(⟨l, hl, ha⟩ | ⟨i, hi, ha⟩), hn⟩
      · exact hn (h1 l hl a ha)
      · exact hn (h4 i hi a ha)
    · rintro a ⟨⟨l, hl, ha⟩, hn⟩; exact hn (h2 l hl a ha)
    · rintro a ⟨⟨l, hl, ha⟩, hn⟩; exact hn (h3 l hl a ha)
  · rintro ⟨h1, h2, h3⟩
    refine ⟨fun l hl a ha => ?_, fun l hl a ha => ?_, fun l hl a ha => ?_, fun i hi a ha => ?_⟩
    · exact Classical.byContradiction fun hn => h1 a ⟨Or.inl ⟨l, hl, ha⟩, hn⟩
    · exact Classical.byContradiction fun hn => h2 a ⟨⟨l, hl, ha⟩, hn⟩
    · exact Classical.byContradiction fun hn => h3 a ⟨⟨l, hl, ha⟩, hn⟩
    · exact Classical.byContradiction fun hn => h1 a ⟨Or.inr ⟨i, hi, ha⟩, hn⟩

theorem NoNewDangling.refl (n : Net) : NoNewDangling n n := ⟨fun _ h => h, fun _ h => h, fun _ h => h⟩

theorem NoNewDangling.trans {a b c : Net} (h1 : NoNewDangling a b) (h2 : NoNewDangling b c) : NoNewDangling a c :=
  ⟨fun x h => h1.lan x (h2.lan x h), fun x h => h1.sign x (h2.sign x h), fun x h => h1.light x (h2.light x h)⟩

/-- with no dangling reference before there is none afterwards -/
theorem NoNewDangling.noDangling {n n' : Net} (h : NoNewDangling n n') (hn : NoDangling n) : NoDangling n' := by
  rw [noDangling_iff] at hn ⊢
  exact ⟨fun a d => hn.1 a (h.lan a d), fun a d => hn.2.1 a (h.sign a d), fun a d => hn.2.2 a (h.light a d)⟩

theorem not_dangL_of {n : Net} (h1 : LanOK n) (h2 : InterOK n) (a : Id) : ¬ DangL n a := by
  rintro ⟨(⟨l, hl, ha⟩ | ⟨i, hi, ha⟩), hn⟩
  · exact hn (h1 l hl a ha)
  · exact hn (h2 i hi a ha)

theorem not_dangS_of {n : Net} (h : SignOK n) (a : Id) : ¬ DangS n a := by
  rintro ⟨⟨l, hl, ha⟩, hn⟩; exact hn (h l hl a ha)

theorem not_dangT_of {n : Net} (h : LightOK n) (a : Id) : ¬ DangT n a := by
  rintro ⟨⟨l, hl, ha⟩, hn⟩; exact hn (h l hl a ha)

/-! ### network-level operations -/

theorem nnd_removeLanelet (n : Net) (x : Id) : NoNewDangling n (n.removeLanelet x) := by
  unfold Net.removeLanelet
  split
  · refine ⟨fun a d => absurd d (not_dangL_of (lanOK_cleanupLaneletRefs _) (interOK_cleanupLaneletRefs _) a), ?_, ?_⟩
    · rintro a ⟨⟨l', hl', ha⟩, hn⟩
      simp only [Net.cleanupLaneletRefs, List.mem_map] at hl'
      obtain ⟨l, hl, rfl⟩ := hl'
      exact ⟨⟨l, (List.mem_filter.1 hl).1, by simpa using ha⟩, hn⟩
    · rintro a ⟨⟨l', hl', ha⟩, hn⟩
      simp only [Net.cleanupLaneletRefs, List.mem_map] at hl'
      obtain ⟨l, hl, rfl⟩ := hl'
      exact ⟨⟨l, (List.mem_filter.1 hl).1, by simpa using ha⟩, hn⟩
  · exact NoNewDangling.refl n

theorem nnd_removeSign (n : Net) (x : Id) : NoNewDangling n (n.removeSign x) := by
  unfold Net.removeSign
  split
  · refine ⟨?_, fun a d => absurd d (not_dangS_of (signOK_cleanupSignRefs _) a), ?_⟩
    · rintro a ⟨hr, hn⟩
      rw [Net.cleanupSignRefs_lids] at hn
      refine ⟨?_, hn⟩
      rcases hr with ⟨l', hl', ha⟩ | ⟨i, hi, ha⟩
      · simp only [Net.cleanupSignRefs, List.mem_map] at hl'
        obtain ⟨l, hl, rfl⟩ := hl'
        exact Or.inl ⟨l, hl, by simpa using ha⟩
      · exact Or.inr ⟨i, hi, ha⟩
    · rintro a ⟨⟨l', hl', ha⟩, hn⟩
      simp only [Net.cleanupSignRefs, List.mem_map] at hl'
      obtain ⟨l, hl, rfl⟩ := hl'
      rw [Lanelet.cleanS_lights, Lanelet.cleanS_stopT] at ha
      exact ⟨⟨l, hl, ha⟩, hn⟩
  · exact NoNewDangling.refl n

theorem nnd_removeLight (n : Net) (x : Id) : NoNewDangling n (n.removeLight x) := by
  unfold Net.removeLight
  refine ⟨?_, ?_, fun a d => absurd d (not_dangT_of (lightOK_cleanupLightRefs _) a)⟩
  · rintro a ⟨hr, hn⟩
    rw [Net.cleanupLightRefs_lids] at hn
    refine ⟨?_, hn⟩
    rcases hr with ⟨l', hl', ha⟩ | ⟨i, hi, ha⟩
    · simp only [Net.cleanupLightRefs, List.mem_map] at hl'
      obtain ⟨l, hl, rfl⟩ := hl'
      exact Or.inl ⟨l, hl, by simpa using ha⟩
    · exact Or.inr ⟨i, hi, ha⟩
  · rintro a ⟨⟨l', hl', ha⟩, hn⟩
    simp only [Net.cleanupLightRefs, List.mem_map] at hl'
    obtain ⟨l, hl, rfl⟩ := hl'
    rw [Lanelet.cleanT_signs, Lanelet.cleanT_stopS] at ha
    exact ⟨⟨l, hl, ha⟩, hn⟩

theorem nnd_removeInter (n : Net) (x : Id) : NoNewDangling n (n.removeInter x) := by
  refine ⟨?_, fun _ h => h, fun _ h => h⟩
  rintro a ⟨hr, hn⟩
  refine ⟨?_, hn⟩
  rcases hr with h | ⟨i, hi, ha⟩
  · exact Or.inl h
  · exact Or.inr ⟨i, (List.mem_filter.1 hi).1, ha⟩

/-- after a successful cut-out with `cleanup_ids` of a network that meets the property's precondition nothing dangles
at all, whatever dangled before (a kept lanelet with a dangling sign / light reference makes the cut-out raise) -/
theorem nnd_cutOut {n n' : Net} {keep : Id → Bool} (hw : Wf n) (h : n.cutOut keep true = .ok n') :
    NoNewDangling n n' := by
  have hnd := nd_cutOut hw h
  exact ⟨fun a d => absurd d (not_dangL_of hnd.1 hnd.2.2.2 a), fun a d => absurd d (not_dangS_of hnd.2.1 a),
    fun a d => absurd d (not_dangT_of hnd.2.2.1 a)⟩

theorem nnd_fromList (n : Net) (sel : List Id) : NoNewDangling n (n.fromList sel true) := by
  have hnd := nd_fromList n sel
  exact ⟨fun a d => absurd d (not_dangL_of hnd.1 hnd.2.2.2 a), fun a d => absurd d (not_dangS_of hnd.2.1 a),
    fun a d => absurd d (not_dangT_of hnd.2.2.1 a)⟩

/-! ### unique ids: `allIds` of the result is a sublist of `allIds` before -/

def Net.interIds (n : Net) : List Id := n.inters.flatMap (fun i => i.id :: i.incomings.map (·.id))

theorem Net.allIds_eq (n : Net) : n.allIds = n.lids ++ n.sids ++ n.tids ++ n.interIds := rfl

theorem Intersection.cleanL_ids (P : Id → Bool) (i : Intersection) :
    ((i.cleanL P).id :: (i.cleanL P).incomings.map (·.id)) = (i.id :: i.incomings.map (·.id)) := by
  simp [Intersection.cleanL, Incoming.cleanL, List.map_map, Function.comp_def]

theorem Net.cleanupLaneletRefs_interIds (n : Net) : n.cleanupLaneletRefs.interIds = n.interIds := by
  simp only [Net.interIds, Net.cleanupLaneletRefs, List.flatMap_map]
  congr 1
  funext i
  exact Intersection.cleanL_ids _ i

theorem sublist_flatMap_filter {α β : Type} (f : α → List β) (p : α → Bool) (l : List α) :
    (l.filter p).flatMap f <+ l.flatMap f := by
  induction l with
  | nil => exact List.Sublist.refl _
  | cons a as ih =>
    simp only [List.filter_cons, List.flatMap_cons]
    split
    · simp only [List.flatMap_cons]; exact List.Sublist.append (List.Sublist.refl _) ih
    · exact List.Sublist.trans ih (List.sublist_append_right _ _)

theorem allIds_sublist_of {n n' : Net} (h1 : n'.lids <+ n.lids) (h2 : n'.sids <+ n.sids) (h3 : n'.tids <+ n.tids)
    (h4 : n'.interIds <+ n.interIds) : n'.allIds <+ n.allIds := by
  rw [Net.allIds_eq, Net.allIds_eq]
  exact ((h1.append h2).append h3).append h4

theorem map_filter_sublist {α β : Type} (f : α → β) (p : α → Bool) (l : List α) : (l.filter p).map f <+ l.map f :=
  List.Sublist.map f List.filter_sublist

theorem allIds_removeLanelet (n : Net) (x : Id) : (n.removeLanelet x).allIds <+ n.allIds := by
  unfold Net.removeLanelet
  split
  · refine allIds_sublist_of ?_ (List.Sublist.refl _) (List.Sublist.refl _) ?_
    · rw [Net.cleanupLaneletRefs_lids]; exact map_filter_sublist _ _ _
    · rw [Net.cleanupLaneletRefs_interIds]; exact List.Sublist.refl _
  · exact List.Sublist.refl _

theorem allIds_removeSign (n : Net) (x : Id) : (n.removeSign x).allIds <+ n.allIds := by
  unfold Net.removeSign
  split
  · refine allIds_sublist_of ?_ (map_filter_sublist _ _ _) (List.Sublist.refl _) (List.Sublist.refl _)
    rw [Net.cleanupSignRefs_lids]; exact List.Sublist.refl _
  · exact List.Sublist.refl _

theorem allIds_removeLight (n : Net) (x : Id) : (n.removeLight x).allIds <+ n.allIds := by
  unfold Net.removeLight
  refine allIds_sublist_of ?_ (List.Sublist.refl _) (map_filter_sublist _ _ _) (List.Sublist.refl _)
  rw [Net.cleanupLightRefs_lids]; exact List.Sublist.refl _

theorem allIds_removeInter (n : Net) (x : Id) : (n.removeInter x).allIds <+ n.allIds :=
  allIds_sublist_of (List.Sublist.refl _) (List.Sublist.refl _) (List.Sublist.refl _) (sublist_flatMap_filter _ _ _)

theorem Incoming.cut_ids (P : Id → Bool) (ks : List Incoming) :
    (ks.filterMap (·.cut P)).map (·.id) <+ ks.map (·.id) := by
  induction ks with
  | nil => exact List.Sublist.refl _
  | cons k ks ih =>
    simp only [List.filterMap_cons, List.map_cons]
    cases hc : k.cut P with
    | none => exact List.Sublist.cons _ ih
    | some k' =>
      have : k'.id = k.id := by rw [Incoming.cut_some hc]
      simp only [List.map_cons, this]
      exact List.Sublist.cons_cons _ ih

theorem cut_interIds (P : Id → Bool) (is : List Intersection) :
    (is.filterMap (·.cut P)).flatMap (fun i => i.id :: i.incomings.map (·.id)) <+
      is.flatMap (fun i => i.id :: i.incomings.map (·.id)) := by
  induction is with
  | nil => exact List.Sublist.refl _
  | cons i is ih =>
    simp only [List.filterMap_cons, List.flatMap_cons]
    cases hc : i.cut P with
    | none => exact List.Sublist.trans ih (List.sublist_append_right _ _)
    | some i' =>
      simp only [List.flatMap_cons]
      refine List.Sublist.append ?_ ih
      rw [Intersection.cut_some hc]
      exact List.Sublist.cons_cons _ (Incoming.cut_ids P i.incomings)

theorem allIds_cutBase (n : Net) (keep : Id → Bool) : (n.cutBase keep).allIds <+ n.allIds :=
  allIds_sublist_of (map_filter_sublist _ _ _) (map_filter_sublist _ _ _) (map_filter_sublist _ _ _) (cut_interIds _ _)

theorem allIds_cutOut {n n' : Net} {keep : Id → Bool} {c : Bool} (h : n.cutOut keep c = .ok n') : n'.allIds <+ n.allIds := by
  obtain ⟨_, _, rfl⟩ := cutOut_ok h
  cases c
  · exact allIds_cutBase n keep
  · simp only [if_true]
    refine List.Sublist.trans (l₂ := (n.cutBase keep).allIds)
      (allIds_sublist_of ?_ (List.Sublist.refl _) (List.Sublist.refl _) ?_) (allIds_cutBase n keep)
    · rw [Net.cleanupLaneletRefs_lids]; exact List.Sublist.refl _
    · rw [Net.cleanupLaneletRefs_interIds]; exact List.Sublist.refl _

theorem addLanelets_nodup (acc ls : List Lanelet) (h : (acc.map (·.id)).Nodup) :
    ((addLanelets acc ls).map (·.id)).Nodup := by
  induction ls generalizing acc with
  | nil => exact h
  | cons b bs ih =>
    unfold addLanelets
    split
    · exact ih acc h
    · rename_i hc
      apply ih
      rw [List.map_append, List.nodup_append]
      refine ⟨h, by simp, ?_⟩
      intro a ha b' hb'
      simp only [List.map_cons, List.map_nil, List.mem_cons, List.not_mem_nil, or_false] at hb'
      subst hb'
      rintro rfl
      exact hc (by simpa using ha)

theorem allIds_fromList_nodup (n : Net) (sel : List Id) (c : Bool) : (n.fromList sel c).allIds.Nodup := by
  have hb := addLanelets_nodup [] (sel.filterMap n.findLanelet) (by simp)
  have : (n.fromList sel c).allIds = (n.fromList sel c).lids := by
    unfold Net.fromList
    cases c <;> simp [Net.allIds, Net.sids, Net.tids, Net.cleanupSignRefs, Net.cleanupLightRefs, Net.cleanupLaneletRefs]
  rw [this]
  unfold Net.fromList
  cases c
  · exact hb
  · simp only [if_true, Net.cleanupSignRefs_lids, Net.cleanupLightRefs_lids, Net.cleanupLaneletRefs_lids]
    exact hb

/-! ### the id pool of the scenario: when the scenario-level loops do not raise -/

/-- a scenario-level loop does not raise when the ids are pairwise different, all name elements of the network and all
are in the pool; afterwards the pool has lost exactly these ids -/
theorem Scn.loop_ok {kind : Net → List Id} {f : Net → Id → Net} {loop : Scn → List Id → Scn × Option Err}
    (hl : LoopShape kind f loop) (hkind : ∀ m i j, j ≠ i → j ∈ kind m → j ∈ kind (f m i))
    (s : Scn) (is : List Id) (hnd : is.Nodup) (hk : ∀ i ∈ is, i ∈ kind s.net) (hin : ∀ i ∈ is, i ∈ s.ids) :
    (loop s is).2 = none ∧ ∀ x, x ∈ (loop s is).1.ids ↔ x ∈ s.ids ∧ x ∉ is := by
  induction is generalizing s with
  | nil => rw [hl.1]; exact ⟨rfl, fun x => by simp⟩
  | cons i is ih =>
    rw [hl.2]
    have hki : (kind s.net).contains i = true := by simpa using hk i List.mem_cons_self
    rw [if_pos hki]
    have hi : i ∈ s.ids := hin i List.mem_cons_self
    have e : ({ s with net := f s.net i } : Scn).idsRemove i =
        (({ net := f s.net i, ids := s.ids.filter (· != i) } : Scn), none) := by
      unfold Scn.idsRemove; simp [hi]
    rw [e]
    rw [List.nodup_cons] at hnd
    have := ih ({ net := f s.net i, ids := s.ids.filter (· != i) } : Scn) hnd.2
      (fun j hj => hkind s.net i j (fun e => hnd.1 (e ▸ hj)) (hk j (List.mem_cons_of_mem _ hj)))
      (by
        intro j hj
        simp only [List.mem_filter, bne_iff_ne, ne_eq]
        exact ⟨hin j (List.mem_cons_of_mem _ hj), fun e => hnd.1 (e ▸ hj)⟩)
    refine ⟨this.1, fun x => ?_⟩
    rw [this.2 x]
    simp only [List.mem_filter, bne_iff_ne, ne_eq, List.mem_cons, not_or]
    constructor
    · rintro ⟨⟨h1, h2⟩, h3⟩; exact ⟨h1, h2, h3⟩
    · rintro ⟨h1, h2, h3⟩; exact ⟨⟨h1, h2⟩, h3⟩

/-! ### what unique ids give -/

theorem eq_of_nodup_map {α : Type} (f : α → Id) {ls : List α} (hn : (ls.map f).Nodup) {a b : α} (ha : a ∈ ls)
    (hb : b ∈ ls) (he : f a = f b) : a = b := by
  induction ls with
  | nil => cases ha
  | cons c cs ih =>
    rw [List.map_cons, List.nodup_cons] at hn
    rcases List.mem_cons.1 ha with rfl | ha' <;> rcases List.mem_cons.1 hb with rfl | hb'
    · rfl
    · exact absurd (List.mem_map.2 ⟨b, hb', he.symm⟩) hn.1
    · exact absurd (List.mem_map.2 ⟨a, ha', he⟩) hn.1
    · exact ih hn.2 ha' hb'

theorem uniq_parts {n : Net} (h : n.allIds.Nodup) :
    n.lids.Nodup ∧ n.sids.Nodup ∧ n.tids.Nodup ∧ n.interIds.Nodup ∧
    (∀ a ∈ n.lids, a ∉ n.sids) ∧ (∀ a ∈ n.lids, a ∉ n.tids) ∧ (∀ a ∈ n.sids, a ∉ n.tids) := by
  rw [Net.allIds_eq] at h
  simp only [List.nodup_append, List.mem_append] at h
  obtain ⟨⟨⟨h1, h2, h12⟩, h3, h123⟩, h4, _⟩ := h
  refine ⟨h1, h2, h3, h4, fun a ha hb => h12 a ha a hb rfl, fun a ha hb => h123 a (Or.inl ha) a hb rfl,
    fun a ha hb => h123 a (Or.inr ha) a hb rfl⟩

theorem interIds_parts {is : List Intersection}
    (h : (is.flatMap (fun i => i.id :: i.incomings.map (·.id))).Nodup) :
    (is.map (·.id)).Nodup ∧ ∀ i ∈ is, (i.incomings.map (·.id)).Nodup := by
  induction is with
  | nil => exact ⟨List.nodup_nil, fun i hi => by cases hi⟩
  | cons c cs ih =>
    simp only [List.flatMap_cons, List.nodup_append, List.nodup_cons] at h
    obtain ⟨⟨_, hc⟩, hrest, hdis⟩ := h
    obtain ⟨ih1, ih2⟩ := ih hrest
    refine ⟨?_, ?_⟩
    · rw [List.map_cons, List.nodup_cons]
      refine ⟨?_, ih1⟩
      intro hm
      obtain ⟨j, hj, he⟩ := List.mem_map.1 hm
      exact hdis c.id List.mem_cons_self c.id (List.mem_flatMap.2 ⟨j, hj, by simp [he]⟩) rfl
    · intro i hi
      rcases List.mem_cons.1 hi with rfl | hi
      · exact hc
      · exact ih2 i hi

end CR.Refs
